(** Proofs/C11.v — Lookup hints are invisible; timestamps are never silently misplaced. *)
From CP Require Import Base.Prelude Base.Str Base.Regex Base.Cfg Base.Float64 Base.Timedelta
  Model.Lines Model.Sync Model.Instrument Spec.C11.
From Coq Require Import Sorted Permutation Lia.
Open Scope Z_scope.

(** * Counting events at or before a tick *)

Definition cnt (es : list bpm_event) (t : Z) : Z :=
  Zlength_ (filter (fun e => b_tick e <=? t) es).

Lemma gov_cnt es t : gov es t = cnt es t - 1.
Proof. reflexivity. Qed.

Lemma cnt_nil t : cnt [] t = 0.
Proof. reflexivity. Qed.

Lemma cnt_cons x l t :
  cnt (x :: l) t = (if b_tick x <=? t then 1 else 0) + cnt l t.
Proof.
  unfold cnt, Zlength_. simpl. destruct (b_tick x <=? t); simpl length; lia.
Qed.

Lemma cnt_app a b t : cnt (a ++ b) t = cnt a t + cnt b t.
Proof.
  unfold cnt, Zlength_. rewrite filter_app, app_length. lia.
Qed.

Lemma cnt_bounds l t : 0 <= cnt l t <= Zlength_ l.
Proof.
  induction l as [|x l IH].
  - unfold cnt, Zlength_; simpl; lia.
  - rewrite cnt_cons. unfold Zlength_ in *. simpl length.
    destruct (b_tick x <=? t); lia.
Qed.

Lemma cnt_all l t : Forall (fun e => b_tick e <= t) l -> cnt l t = Zlength_ l.
Proof.
  induction 1 as [|x l Hx Hl IH].
  - reflexivity.
  - rewrite cnt_cons, IH. unfold Zlength_. simpl length.
    apply Z.leb_le in Hx. rewrite Hx. lia.
Qed.

Lemma cnt_none l t : Forall (fun e => t < b_tick e) l -> cnt l t = 0.
Proof.
  induction 1 as [|x l Hx Hl IH].
  - reflexivity.
  - rewrite cnt_cons, IH.
    destruct (b_tick x <=? t) eqn:E; [apply Z.leb_le in E; lia | lia].
Qed.

(** * Strictly sorted tempo lists *)

Lemma sorted_cons_inv x l :
  sorted_strict (x :: l) ->
  Forall (fun e => b_tick x < b_tick e) l /\ sorted_strict l.
Proof.
  unfold sorted_strict. simpl. intro H.
  apply StronglySorted_inv in H. destruct H as [Hs Hf].
  split; [|exact Hs].
  rewrite Forall_map in Hf. exact Hf.
Qed.

Lemma sorted_cons_intro x l :
  Forall (fun e => b_tick x < b_tick e) l -> sorted_strict l -> sorted_strict (x :: l).
Proof.
  unfold sorted_strict. simpl. intros Hf Hs.
  constructor; [exact Hs|]. rewrite Forall_map. exact Hf.
Qed.

Lemma sorted_app_inv pre first rest :
  sorted_strict (pre ++ first :: rest) ->
  Forall (fun e => b_tick e < b_tick first) pre /\ sorted_strict (first :: rest).
Proof.
  induction pre as [|x pre IH]; simpl; intro H.
  - split; [constructor | exact H].
  - apply sorted_cons_inv in H. destruct H as [Hf Hs].
    destruct (IH Hs) as [Hpre Hfr]. split; [|exact Hfr].
    constructor; [|exact Hpre].
    rewrite Forall_forall in Hf. apply Hf. apply in_or_app. right. left. reflexivity.
Qed.

Lemma sorted_head_lt first rest t :
  sorted_strict (first :: rest) -> t < b_tick first -> cnt (first :: rest) t = 0.
Proof.
  intros Hs Hlt. apply sorted_cons_inv in Hs. destruct Hs as [Hf _].
  apply cnt_none. constructor; [exact Hlt|].
  eapply Forall_impl; [|exact Hf]. simpl. intros a Ha. lia.
Qed.

(** * The forward scan computes the governing index of the suffix *)

Lemma scan_from_gov l idx t first rest :
  sorted_strict l -> l = first :: rest -> b_tick first <= t ->
  scan_from l idx t = idx + gov l t.
Proof.
  revert idx first rest.
  induction l as [|x l IH]; intros idx first rest Hs El Hle.
  - discriminate El.
  - inversion El; subst x l. clear El.
    rewrite gov_cnt, cnt_cons.
    assert (E1 : (b_tick first <=? t) = true) by (apply Z.leb_le; exact Hle).
    rewrite E1.
    destruct rest as [|nxt r'].
    + simpl scan_from. rewrite cnt_nil. lia.
    + change (scan_from (first :: nxt :: r') idx t)
        with (if t <? b_tick nxt then idx else scan_from (nxt :: r') (idx + 1) t).
      pose proof (sorted_cons_inv _ _ Hs) as [Hf Hs'].
      destruct (t <? b_tick nxt) eqn:E2.
      * apply Z.ltb_lt in E2. rewrite (sorted_head_lt _ _ _ Hs' E2). lia.
      * apply Z.ltb_ge in E2.
        rewrite (IH (idx + 1) nxt r' Hs' eq_refl E2).
        rewrite gov_cnt. lia.
Qed.

Lemma length_firstn_le {A} (n : nat) (l : list A) :
  (n <= length l)%nat -> length (firstn n l) = n.
Proof. intro H. rewrite firstn_length. lia. Qed.

(** Splitting at a position whose event is at or before [t]. *)
Lemma gov_split_le es n first rest t :
  sorted_strict es -> skipn n es = first :: rest -> b_tick first <= t ->
  gov es t = Z.of_nat n + gov (first :: rest) t /\ 0 <= gov (first :: rest) t.
Proof.
  intros Hs Esk Hle.
  assert (Hn : (n < length es)%nat).
  { destruct (Nat.lt_ge_cases n (length es)) as [Hlt|Hge]; [exact Hlt|].
    rewrite skipn_all2 in Esk by exact Hge. discriminate Esk. }
  rewrite <- (firstn_skipn n es) in Hs. rewrite Esk in Hs.
  apply sorted_app_inv in Hs. destruct Hs as [Hpre Hfr].
  rewrite !gov_cnt.
  rewrite <- (firstn_skipn n es) at 1. rewrite cnt_app, Esk.
  rewrite (cnt_all (firstn n es)).
  - unfold Zlength_. rewrite length_firstn_le by lia.
    rewrite cnt_cons.
    assert (E1 : (b_tick first <=? t) = true) by (apply Z.leb_le; exact Hle).
    rewrite E1. pose proof (cnt_bounds rest t). lia.
  - eapply Forall_impl; [|exact Hpre]. simpl. intros a Ha. lia.
Qed.

(** Splitting at a position whose event is after [t]. *)
Lemma gov_split_lt es n first rest t :
  sorted_strict es -> skipn n es = first :: rest -> t < b_tick first ->
  gov es t < Z.of_nat n.
Proof.
  intros Hs Esk Hlt.
  assert (Hn : (n < length es)%nat).
  { destruct (Nat.lt_ge_cases n (length es)) as [Hl|Hge]; [exact Hl|].
    rewrite skipn_all2 in Esk by exact Hge. discriminate Esk. }
  rewrite <- (firstn_skipn n es) in Hs. rewrite Esk in Hs.
  apply sorted_app_inv in Hs. destruct Hs as [Hpre Hfr].
  rewrite gov_cnt.
  rewrite <- (firstn_skipn n es). rewrite cnt_app, Esk.
  rewrite (sorted_head_lt _ _ _ Hfr Hlt).
  pose proof (cnt_bounds (firstn n es) t) as Hb.
  unfold Zlength_ in Hb. rewrite length_firstn_le in Hb by lia. lia.
Qed.

Lemma gov_bounds es t : -1 <= gov es t <= Zlength_ es - 1.
Proof. rewrite gov_cnt. pose proof (cnt_bounds es t). lia. Qed.

(** * C11_hint *)

Lemma C11_hint : C11_hint_stmt.
Proof.
  unfold C11_hint_stmt. intros es t h Hs Hne Hh.
  unfold index_of_proximal.
  destruct (h <? 0) eqn:Eh0; [apply Z.ltb_lt in Eh0; lia|].
  pose proof (gov_bounds es t) as Hgb.
  destruct (Zlength_ es - 1 <? h) eqn:Elast.
  - apply Z.ltb_lt in Elast. split; [intro Hle; lia | reflexivity].
  - apply Z.ltb_ge in Elast.
    destruct (skipn (Z.to_nat h) es) as [|first rest] eqn:Esk.
    + exfalso.
      assert (Hlen : length (skipn (Z.to_nat h) es) = (length es - Z.to_nat h)%nat)
        by apply skipn_length.
      rewrite Esk in Hlen. simpl in Hlen. unfold Zlength_ in Elast. lia.
    + destruct (t <? b_tick first) eqn:Et.
      * apply Z.ltb_lt in Et.
        pose proof (gov_split_lt es _ first rest t Hs Esk Et) as Hlt.
        rewrite Z2Nat.id in Hlt by lia.
        split; [intro Hle; lia | reflexivity].
      * apply Z.ltb_ge in Et.
        pose proof (gov_split_le es _ first rest t Hs Esk Et) as [Hg Hg0].
        rewrite Z2Nat.id in Hg by lia.
        split; [intros _ | intro Hlt; lia].
        f_equal.
        assert (Hs' : sorted_strict (first :: rest)).
        { rewrite <- (firstn_skipn (Z.to_nat h) es) in Hs. rewrite Esk in Hs.
          apply sorted_app_inv in Hs. apply Hs. }
        rewrite (scan_from_gov _ h t first rest Hs' eq_refl Et). lia.
Qed.

(** * The whole query *)

Lemma C11_ts : C11_ts_stmt.
Proof.
  unfold C11_ts_stmt. intros B t h Hs Hne Hh Hle.
  unfold timestamp_at_tick.
  destruct (C11_hint (evs B) t h Hs Hne Hh) as [H1 _].
  destruct (C11_hint (evs B) t 0 Hs Hne (Z.le_refl 0)) as [H2 _].
  rewrite (H1 Hle). rewrite H2 by lia. reflexivity.
Qed.

Lemma C11_ts_reject : C11_ts_reject_stmt.
Proof.
  unfold C11_ts_reject_stmt. intros B t h Hs Hne Hlt.
  pose proof (gov_bounds (evs B) t) as Hgb.
  assert (Hh : 0 <= h) by lia.
  destruct (C11_hint (evs B) t h Hs Hne Hh) as [_ H2].
  unfold timestamp_at_tick. rewrite (H2 Hlt). reflexivity.
Qed.

Lemma C11_any_ok : C11_any_ok_stmt.
Proof.
  unfold C11_any_ok_stmt. intros B t h r Hs Hne Hh Hok.
  destruct (Z_le_gt_dec h (gov (evs B) t)) as [Hle|Hgt].
  - rewrite <- (C11_ts B t h Hs Hne Hh Hle). exact Hok.
  - rewrite (C11_ts_reject B t h Hs Hne) in Hok by lia. discriminate Hok.
Qed.

Lemma timestamp_at_tick_ok_inv B t h ts idx :
  timestamp_at_tick B t h = Ok (ts, idx) ->
  index_of_proximal (evs B) t h = Ok idx /\
  exists p s, nth_Z (evs B) idx = Some p /\
              seconds (tick_between (b_tick p) t) (b_bpm p) (resolution B) = Ok s /\
              time_add_seconds (b_ts p) s = Ok ts.
Proof.
  unfold timestamp_at_tick. intro H.
  destruct (index_of_proximal (evs B) t h) as [i|e] eqn:Ei; simpl in H; [|discriminate H].
  destruct (nth_Z (evs B) i) as [p|] eqn:Ep; [|discriminate H].
  destruct (seconds (tick_between (b_tick p) t) (b_bpm p) (resolution B)) as [s|e] eqn:Es;
    simpl in H; [|discriminate H].
  destruct (time_add_seconds (b_ts p) s) as [ts'|e] eqn:Et; simpl in H; [|discriminate H].
  inversion H; subst ts' i. split; [reflexivity|].
  exists p, s. auto.
Qed.

Lemma index_of_proximal_nil t h : forall i, index_of_proximal [] t h <> Ok i.
Proof.
  intros i. unfold index_of_proximal.
  destruct (h <? 0) eqn:Eh; [discriminate|].
  apply Z.ltb_ge in Eh.
  replace (Zlength_ (@nil bpm_event) - 1 <? h) with true; [discriminate|].
  symmetry. apply Z.ltb_lt. unfold Zlength_. simpl. lia.
Qed.

Lemma C11_index : C11_index_stmt.
Proof.
  unfold C11_index_stmt. intros B t h ts idx Hs Hh Hok.
  apply timestamp_at_tick_ok_inv in Hok. destruct Hok as [Hi _].
  destruct (evs B) as [|e0 es] eqn:Ees.
  - exfalso. exact (index_of_proximal_nil t h idx Hi).
  - assert (Hne : e0 :: es <> []) by discriminate.
    destruct (C11_hint (e0 :: es) t h Hs Hne Hh) as [H1 H2].
    destruct (Z_le_gt_dec h (gov (e0 :: es) t)) as [Hle|Hgt].
    + rewrite (H1 Hle) in Hi. inversion Hi. reflexivity.
    + rewrite H2 in Hi by lia. discriminate Hi.
Qed.

(** A successful hinted query: the un-hinted one agrees and the index is at least the hint. *)
Lemma ts_ok_facts B t h ts idx :
  sorted_strict (evs B) -> evs B <> [] -> 0 <= h ->
  timestamp_at_tick B t h = Ok (ts, idx) ->
  h <= idx /\ timestamp_at_tick B t 0 = Ok (ts, idx).
Proof.
  intros Hs Hne Hh Hok. split.
  - pose proof (C11_index B t h ts idx Hs Hh Hok) as Hi.
    destruct (Z_le_gt_dec h (gov (evs B) t)) as [Hle|Hgt]; [lia|].
    rewrite (C11_ts_reject B t h Hs Hne) in Hok by lia. discriminate Hok.
  - exact (C11_any_ok B t h (ts, idx) Hs Hne Hh Hok).
Qed.

(** * The hinted fold *)

Definition hint_of (prev : option timed) : Z :=
  match prev with Some p => t_idx p | None => 0 end.

Lemma timed_from_ok_inv B tick prev e :
  timed_from B tick prev = Ok e ->
  t_tick e = tick /\ timestamp_at_tick B tick (hint_of prev) = Ok (t_ts e, t_idx e).
Proof.
  unfold timed_from. fold (hint_of prev). intro H.
  destruct (timestamp_at_tick B tick (hint_of prev)) as [[ts idx]|er] eqn:E; simpl in H;
    [|discriminate H].
  inversion H; subst e. simpl. auto.
Qed.

Lemma timed_from_err_inv B tick prev er :
  timed_from B tick prev = Err er ->
  timestamp_at_tick B tick (hint_of prev) = Err er.
Proof.
  unfold timed_from. fold (hint_of prev). intro H.
  destruct (timestamp_at_tick B tick (hint_of prev)) as [[ts idx]|er'] eqn:E; simpl in H;
    [discriminate H | inversion H; reflexivity].
Qed.

Lemma build_timed_ok B :
  sorted_strict (evs B) -> evs B <> [] ->
  forall ticks prev out, 0 <= hint_of prev ->
    build_timed B ticks prev = Ok out ->
    map t_tick out = ticks /\ Forall (stored_ok B) out.
Proof.
  intros Hs Hne. induction ticks as [|t ticks IH]; intros prev out Hh H.
  - simpl in H. inversion H. split; [reflexivity | constructor].
  - simpl in H.
    apply bind_ok in H. destruct H as [e [He H]].
    apply bind_ok in H. destruct H as [es [Hes H]].
    inversion H; subst out. clear H.
    apply timed_from_ok_inv in He. destruct He as [Htick Hq].
    destruct (ts_ok_facts B t _ _ _ Hs Hne Hh Hq) as [Hge H0].
    destruct (IH (Some e) es) as [IH1 IH2]; [simpl; lia | exact Hes |].
    split.
    + simpl. rewrite Htick, IH1. reflexivity.
    + constructor; [|exact IH2]. unfold stored_ok. rewrite Htick. exact H0.
Qed.

Lemma C11_threaded : C11_threaded_stmt.
Proof.
  unfold C11_threaded_stmt. intros B ticks out Hs Hne H.
  apply (build_timed_ok B Hs Hne ticks None out); [simpl; lia | exact H].
Qed.

Lemma build_timed_err B :
  sorted_strict (evs B) -> evs B <> [] ->
  forall ticks prev e, 0 <= hint_of prev ->
    build_timed B ticks prev = Err e ->
    e = EValue \/ exists t, In t ticks /\ timestamp_at_tick B t 0 = Err e.
Proof.
  intros Hs Hne. induction ticks as [|t ticks IH]; intros prev e Hh H.
  - simpl in H. discriminate H.
  - simpl in H. apply bind_err in H. destruct H as [H | [a [Ha H]]].
    + apply timed_from_err_inv in H.
      destruct (Z_le_gt_dec (hint_of prev) (gov (evs B) t)) as [Hle|Hgt].
      * right. exists t. split; [left; reflexivity|].
        rewrite <- (C11_ts B t _ Hs Hne Hh Hle). exact H.
      * left. rewrite (C11_ts_reject B t _ Hs Hne) in H by lia. congruence.
    + apply bind_err in H. destruct H as [H | [es [Hes H]]]; [|discriminate H].
      apply timed_from_ok_inv in Ha. destruct Ha as [Htick Hq].
      destruct (ts_ok_facts B t _ _ _ Hs Hne Hh Hq) as [Hge _].
      destruct (IH (Some a) e) as [IHl | [t' [Hin Ht']]]; [simpl; lia | exact H | |].
      * left. exact IHl.
      * right. exists t'. split; [right; exact Hin | exact Ht'].
Qed.

Lemma C11_threaded_err : C11_threaded_err_stmt.
Proof.
  unfold C11_threaded_err_stmt. intros B ticks e Hs Hne H.
  apply (build_timed_err B Hs Hne ticks None e); [simpl; lia | exact H].
Qed.

(** * Notes *)

Definition prev_key (prev : option note_event) : option (Z * list bool) :=
  match prev with Some p => Some (n_tick p, n_note p) | None => None end.

Lemma note_from_group_ok_inv c B sps g prev hint cursor e hint' cursor' :
  note_from_group c B sps g prev hint cursor = Ok (e, hint', cursor') ->
  exists d0 g' ts idx longest end_ts idx2,
    g = d0 :: g' /\
    timestamp_at_tick B (nd_tick d0) hint = Ok (ts, idx) /\
    n_at e = {| t_tick := nd_tick d0; t_ts := ts; t_idx := idx |} /\
    hint' = idx /\
    longest_sustain (n_sustain e) = Ok longest /\
    timestamp_at_tick B (nd_tick d0 + longest) idx = Ok (end_ts, idx2) /\
    n_end_ts e = end_ts /\
    n_note e = lanes_of g /\
    compute_hopo c (resolution B) (nd_tick d0) (lanes_of g)
      (existsb (fun d => nd_idx d =? IDX_TAP) g)
      (existsb (fun d => nd_idx d =? IDX_FORCED) g) (prev_key prev) = Ok (n_hopo e).
Proof.
  unfold note_from_group. fold (prev_key prev). intro H.
  destruct g as [|d0 g']; [discriminate H|].
  remember (d0 :: g') as g eqn:Eg.
  destruct (complex_sustain g) as [sus|er] eqn:Esus; simpl in H; [|discriminate H].
  destruct (timestamp_at_tick B (nd_tick d0) hint) as [[ts idx]|er] eqn:Ets; simpl in H;
    [|discriminate H].
  destruct (compute_hopo c (resolution B) (nd_tick d0) (lanes_of g)
              (existsb (fun d => nd_idx d =? IDX_TAP) g)
              (existsb (fun d => nd_idx d =? IDX_FORCED) g) (prev_key prev))
    as [hp|er] eqn:Ehp; simpl in H; [|discriminate H].
  destruct (compute_sp sps (nd_tick d0) cursor) as [[spd cur']|er] eqn:Esp; simpl in H;
    [|discriminate H].
  destruct (longest_sustain sus) as [longest|er] eqn:Elong; simpl in H; [|discriminate H].
  destruct (timestamp_at_tick B (tick_add (nd_tick d0) longest) idx) as [[end_ts idx2]|er]
    eqn:Eend; simpl in H; [|discriminate H].
  inversion H; subst e hint' cursor'. clear H. simpl.
  exists d0, g', ts, idx, longest, end_ts, idx2.
  unfold tick_add in Eend.
  repeat split; try reflexivity; assumption.
Qed.

Lemma build_notes_ok c B sps :
  sorted_strict (evs B) -> evs B <> [] ->
  forall groups prev hint cursor notes, 0 <= hint ->
    build_notes c B sps groups prev hint cursor = Ok notes ->
    Forall (note_stored_ok B) notes.
Proof.
  intros Hs Hne. induction groups as [|g gs IH]; intros prev hint cursor notes Hh H.
  - simpl in H. inversion H. constructor.
  - simpl in H.
    apply bind_ok in H. destruct H as [[[e hint'] cursor'] [He H]].
    apply bind_ok in H. destruct H as [es [Hes H]].
    inversion H; subst notes. clear H.
    apply note_from_group_ok_inv in He.
    destruct He as (d0 & g' & ts & idx & longest & end_ts & idx2 &
                    Eg & Hq & Hat & Hhint & Hlong & Hend & Hets & _ & _).
    destruct (ts_ok_facts B _ _ _ _ Hs Hne Hh Hq) as [Hge H0].
    assert (Hidx : 0 <= idx) by lia.
    destruct (ts_ok_facts B _ _ _ _ Hs Hne Hidx Hend) as [_ Hend0].
    constructor.
    + unfold note_stored_ok, stored_ok, n_tick. rewrite Hat. simpl. split; [exact H0|].
      exists longest, idx2. split; [exact Hlong|]. rewrite Hets. exact Hend0.
    + apply (IH (Some e) hint' cursor' es); [lia | exact Hes].
Qed.

Lemma C11_notes : C11_notes_stmt.
Proof.
  unfold C11_notes_stmt. intros c B sps groups notes Hs Hne H.
  apply (build_notes_ok c B sps Hs Hne groups None 0 0 notes); [lia | exact H].
Qed.

(** * Built tempo lists are well formed *)

Lemma bpm_from_data_ok_inv T tick raw prev R e :
  bpm_from_data T tick raw prev R = Ok e ->
  b_tick e = tick /\
  match prev with
  | None => b_idx e = 0
  | Some p => b_tick p < tick /\ b_idx e = b_idx p + 1
  end /\
  exists bpm, decode_bpm T raw = Ok bpm /\ b_bpm e = bpm /\ check_bpm_3dp bpm = Ok tt.
Proof.
  unfold bpm_from_data. intro H.
  destruct (decode_bpm T raw) as [bpm|er] eqn:Edec; simpl in H; [|discriminate H].
  apply bind_ok in H. destruct H as [[ts idx] [Hprev H]].
  destruct (check_bpm_3dp bpm) as [[]|er] eqn:Echk; simpl in H; [|discriminate H].
  inversion H; subst e. clear H. simpl.
  split; [reflexivity|]. split; [|exists bpm; auto].
  destruct prev as [p|].
  - destruct (tick <=? b_tick p) eqn:Et; [discriminate Hprev|].
    apply Z.leb_gt in Et.
    apply bind_ok in Hprev. destruct Hprev as [s [_ Hprev]].
    apply bind_ok in Hprev. destruct Hprev as [d [_ Hprev]].
    apply bind_ok in Hprev. destruct Hprev as [ts' [_ Hprev]].
    inversion Hprev; subst. split; [exact Et | reflexivity].
  - inversion Hprev; subst. reflexivity.
Qed.

Definition next_idx (prev : option bpm_event) : Z :=
  match prev with None => 0 | Some p => b_idx p + 1 end.

Lemma build_bpm_list_ok T R :
  forall datas prev es,
    build_bpm_list T datas prev R = Ok es ->
    sorted_strict es /\
    (forall p, prev = Some p -> Forall (fun e => b_tick p < b_tick e) es) /\
    map b_tick es = map fst datas /\
    (forall n e, nth_error es n = Some e -> b_idx e = next_idx prev + Z.of_nat n).
Proof.
  induction datas as [|[tick raw] ds IH]; intros prev es H.
  - simpl in H. inversion H; subst es.
    split; [constructor|]. split; [intros; constructor|]. split; [reflexivity|].
    intros n e Hn. destruct n; discriminate Hn.
  - simpl in H.
    apply bind_ok in H. destruct H as [e [He H]].
    apply bind_ok in H. destruct H as [es' [Hes H]].
    inversion H; subst es. clear H.
    apply bpm_from_data_ok_inv in He. destruct He as [Htick [Hprev _]].
    destruct (IH (Some e) es' Hes) as [IHs [IHf [IHm IHi]]].
    pose proof (IHf e eq_refl) as Hf.
    split; [apply sorted_cons_intro; assumption|].
    split; [|split].
    + intros p Ep. subst prev. destruct Hprev as [Hlt _].
      constructor; [lia|].
      eapply Forall_impl; [|exact Hf]. simpl. intros a Ha. lia.
    + simpl. rewrite Htick, IHm. reflexivity.
    + intros n e' Hn. destruct n as [|n].
      * simpl in Hn. inversion Hn; subst e'.
        destruct prev as [p|]; simpl; [destruct Hprev as [_ Hi]; lia | lia].
      * simpl in Hn. rewrite (IHi n e' Hn). simpl next_idx.
        assert (Hie : b_idx e = next_idx prev).
        { destruct prev as [p|]; simpl; [destruct Hprev as [_ Hi]; exact Hi | exact Hprev]. }
        lia.
Qed.

Lemma mk_bpm_events_ok_inv es R B :
  mk_bpm_events es R = Ok B ->
  0 < R /\ evs B = es /\ resolution B = R /\
  exists e0 rest, es = e0 :: rest /\ b_tick e0 = 0.
Proof.
  unfold mk_bpm_events. intro H.
  destruct (R <=? 0) eqn:ER; [discriminate H|]. apply Z.leb_gt in ER.
  destruct es as [|e0 rest]; [discriminate H|].
  destruct (b_tick e0 =? 0) eqn:E0; [|discriminate H]. apply Z.eqb_eq in E0.
  inversion H; subst B. simpl.
  split; [exact ER|]. split; [reflexivity|]. split; [reflexivity|].
  exists e0, rest. auto.
Qed.

Lemma build_bpm_events_ok_inv T datas R B :
  build_bpm_events T datas R = Ok B ->
  exists es, build_bpm_list T datas None R = Ok es /\ mk_bpm_events es R = Ok B.
Proof.
  unfold build_bpm_events. intro H. apply bind_ok in H. exact H.
Qed.

Lemma C11_built_wf : C11_built_wf_stmt.
Proof.
  unfold C11_built_wf_stmt. intros T datas R B H.
  apply build_bpm_events_ok_inv in H. destruct H as [es [Hl Hm]].
  apply build_bpm_list_ok in Hl. destruct Hl as [Hs _].
  apply mk_bpm_events_ok_inv in Hm. destruct Hm as [HR [Hev [Hres Hfirst]]].
  unfold wf_bpm. rewrite Hev, Hres. auto.
Qed.

(** The governing index of an event's own tick is its position. *)
Lemma gov_self es :
  sorted_strict es -> forall n e, nth_error es n = Some e -> gov es (b_tick e) = Z.of_nat n.
Proof.
  induction es as [|x l IH]; intros Hs n e Hn.
  - destruct n; discriminate Hn.
  - apply sorted_cons_inv in Hs. destruct Hs as [Hf Hs].
    rewrite gov_cnt, cnt_cons.
    destruct n as [|n]; simpl in Hn.
    + inversion Hn; subst x.
      rewrite Z.leb_refl. rewrite cnt_none; [simpl; lia | exact Hf].
    + assert (Hin : In e l) by (eapply nth_error_In; exact Hn).
      rewrite Forall_forall in Hf. pose proof (Hf e Hin) as Hlt.
      assert (E1 : (b_tick x <=? b_tick e) = true) by (apply Z.leb_le; lia).
      rewrite E1. pose proof (IH Hs n e Hn) as Hg. rewrite gov_cnt in Hg. lia.
Qed.

Lemma C11_bpm_self : C11_bpm_self_stmt.
Proof.
  unfold C11_bpm_self_stmt. intros T datas R B H i e Hn.
  apply build_bpm_events_ok_inv in H. destruct H as [es [Hl Hm]].
  apply build_bpm_list_ok in Hl. destruct Hl as [Hs [_ [_ Hi]]].
  apply mk_bpm_events_ok_inv in Hm. destruct Hm as [_ [Hev _]].
  rewrite Hev in *.
  unfold nth_Z in Hn. destruct (i <? 0) eqn:Ei; [discriminate Hn|].
  apply Z.ltb_ge in Ei.
  split.
  - rewrite (Hi _ _ Hn). simpl. lia.
  - rewrite (gov_self es Hs _ _ Hn). lia.
Qed.

