(** Proofs/C07.v — proofs of the statements of Spec/C07.v: the three instrument-section
    recognisers accept exactly the canonical shapes and decode the written values. *)
From CP Require Import Base.Prelude Base.Str Base.Regex Base.Cfg Model.Lines Spec.RefRegex Spec.C07
  Proofs.RegexShapes.
From Coq Require Import Lia.
Open Scope Z_scope.
Open Scope string_scope.

(** The literals, as code points. *)
Lemma ofs_N : of_string " = N " = [32; 61; 32; 78; 32]%N.
Proof. reflexivity. Qed.
Lemma ofs_S2 : of_string " = S 2 " = [32; 61; 32; 83; 32; 50; 32]%N.
Proof. reflexivity. Qed.
Lemma ofs_E : of_string " = E " = [32; 61; 32; 69; 32]%N.
Proof. reflexivity. Qed.
Lemma ofs_blank : of_string " " = [32]%N.
Proof. reflexivity. Qed.

Section P.
Variable c : cfg.
Notation T := (tbl c).
Hypothesis HT : tables_ok T = true.

(** *** Languages of the three reference recognisers *)

Lemma note_lang s : Lang T ref_note s <-> exists t i l, note_shape c s t i l.
Proof.
  unfold ref_note, note_shape, all_ws_p, digits_p, S_. split.
  - intro H. apply Lang_head_lit in H as (p & t & r & -> & Hp & Hne & Ht & Hr).
    cbn [app] in Hr. apply Lang_seq_range in Hr as (x & b & -> & Hx & Hb).
    apply Lang_seq_Ls in Hb as (b' & -> & Hb).
    apply Lang_seq_plus_dg in Hb as (l & q & -> & Hlne & Hl & Hq).
    apply Lang_ws_eol in Hq; [|apply ws_LF; exact HT].
    exists t, (Z.of_N x - 48), l, p, q. repeat split; try assumption; try lia.
    replace (Z.to_N (48 + (Z.of_N x - 48))) with x by lia. reflexivity.
  - intros (t & i & l & p & q & Hp & Hq & [Hne Ht] & [Hlne Hl] & Hi & ->).
    apply Lang_head_lit. exists p, t, ([Z.to_N (48 + i)] ++ of_string " " ++ l ++ q).
    repeat split; try assumption.
    cbn [app]. apply Lang_seq_range. exists (Z.to_N (48 + i)), (of_string " " ++ l ++ q).
    repeat split; try lia.
    apply Lang_seq_Ls. exists (l ++ q). split; [reflexivity|].
    apply Lang_seq_plus_dg. exists l, q. repeat split; try assumption.
    apply Lang_ws_eol; [apply ws_LF; exact HT | exact Hq].
Qed.

Lemma sp_lang s : Lang T ref_sp s <-> exists t l, sp_shape c s t l.
Proof.
  unfold ref_sp, sp_shape, all_ws_p, digits_p, S_. split.
  - intro H. apply Lang_head_lit in H as (p & t & r & -> & Hp & Hne & Ht & Hr).
    apply Lang_seq_plus_dg in Hr as (l & q & -> & Hlne & Hl & Hq).
    apply Lang_ws_eol in Hq; [|apply ws_LF; exact HT].
    exists t, l, p, q. repeat split; assumption.
  - intros (t & l & p & q & Hp & Hq & [Hne Ht] & [Hlne Hl] & ->).
    apply Lang_head_lit. exists p, t, (l ++ q). repeat split; try assumption.
    apply Lang_seq_plus_dg. exists l, q. repeat split; try assumption.
    apply Lang_ws_eol; [apply ws_LF; exact HT | exact Hq].
Qed.

Lemma tev_lang s : Lang T ref_tev s <-> exists t w, tev_shape c s t w.
Proof.
  unfold ref_tev, tev_shape, all_ws_p, digits_p, word_p, S_. split.
  - intro H. apply Lang_head_lit in H as (p & t & r & -> & Hp & Hne & Ht & Hr).
    apply Lang_seq_star_any_but in Hr as (x & b & -> & Hx & Hb).
    apply Lang_ws_eol in Hb; [|apply ws_LF; exact HT].
    destruct (split_trailing (is_ws T) x) as (w & x2 & -> & Hw & Hx2).
    apply Forall_app in Hx as [Hxw _].
    exists t, w, p, (x2 ++ b). repeat split; try assumption.
    + apply Forall_app; split; assumption.
    + rewrite <- app_assoc. reflexivity.
  - intros (t & w & p & q & Hp & Hq & [Hne Ht] & [Hw _] & ->).
    apply Lang_head_lit. exists p, t, (w ++ q). repeat split; try assumption.
    apply Lang_seq_star_any_but. exists w, q. repeat split; try assumption.
    apply Lang_ws_eol; [apply ws_LF; exact HT | exact Hq].
Qed.

(** *** The extractors on the canonical shapes *)

Lemma extract_note p t a l q :
  all_ws_p c p -> all_ws_p c q -> digits_p c t -> digits_p c l -> short t -> short l ->
  existsb (Z.eqb (Z.of_N a - 48)) (nti_values c) = true ->
  extract c KNote (p ++ t ++ of_string " = N " ++ [a] ++ of_string " " ++ l ++ q)
  = Ok (PNote (horner T t 0) (Z.of_N a - 48) (horner T l 0)).
Proof.
  intros Hp Hq [Hne Ht] [Hlne Hl] Hst Hsl Hi.
  rewrite ofs_N, ofs_blank. cbn [app]. unfold extract.
  rewrite head_tick_shape; try assumption; [|apply hf_digit_blank; exact HT].
  rewrite py_int_short by exact Hst. cbn [bind skipn].
  rewrite span_app; [| exact Hl | apply hf_digit_of_ws; assumption].
  rewrite py_int_short by exact Hsl. cbn [bind]. rewrite Hi. reflexivity.
Qed.

Lemma extract_sp p t l q :
  sp_literal c = [50%N] ->
  all_ws_p c p -> all_ws_p c q -> digits_p c t -> digits_p c l -> short t -> short l ->
  extract c KSP (p ++ t ++ of_string " = S 2 " ++ l ++ q)
  = Ok (PSP (horner T t 0) (horner T l 0)).
Proof.
  intros Hlit Hp Hq [Hne Ht] [Hlne Hl] Hst Hsl.
  rewrite ofs_S2. cbn [app]. unfold extract.
  rewrite head_tick_shape; try assumption; [|apply hf_digit_blank; exact HT].
  rewrite py_int_short by exact Hst. rewrite Hlit. cbn [bind length Nat.add skipn].
  rewrite span_app; [| exact Hl | apply hf_digit_of_ws; assumption].
  rewrite py_int_short by exact Hsl. reflexivity.
Qed.

Lemma app_tail_last {A} (v1 v2 w' : list A) x :
  v1 ++ v2 = w' ++ [x] -> v2 <> [] -> exists v2', v2 = v2' ++ [x].
Proof.
  intros E Hne. destruct (exists_last Hne) as (v2' & y & ->).
  rewrite app_assoc in E. apply app_inj_tail in E as [_ ->]. eauto.
Qed.

Lemma lazy_word w q :
  word_p c w -> all_ws_p c q -> lazy_prefix not_space 0 (rem_ws c) (w ++ q) = Some (w, q).
Proof.
  intros [Hw Hlast] Hq. apply lazy_prefix0_intro.
  - revert Hw. apply Forall_impl. intros x Hx. unfold not_space, SPACE.
    destruct (N.eqb_spec x 32); [contradiction | reflexivity].
  - apply rem_ws_iff. exact Hq.
  - intros v1 v2 E Hne. destruct Hlast as [-> | (w' & ch & -> & Hch)].
    + symmetry in E. apply app_eq_nil in E as [_ ->]. congruence.
    + symmetry in E. destruct (app_tail_last v1 v2 w' ch E Hne) as (v2' & ->).
      unfold rem_ws. apply (all_ws_false_in c _ ch); [|exact Hch].
      apply in_or_app. left. apply in_or_app. right. left. reflexivity.
Qed.

Lemma extract_tev p t w q :
  all_ws_p c p -> all_ws_p c q -> digits_p c t -> word_p c w -> short t ->
  extract c KTev (p ++ t ++ of_string " = E " ++ w ++ q) = Ok (PTev (horner T t 0) w).
Proof.
  intros Hp Hq [Hne Ht] Hw Hst.
  rewrite ofs_E. cbn [app]. unfold extract.
  rewrite head_tick_shape; try assumption; [|apply hf_digit_blank; exact HT].
  rewrite py_int_short by exact Hst. cbn [bind skipn].
  rewrite lazy_word by assumption. reflexivity.
Qed.

End P.

(** *** The statements *)

Lemma C07_note_only c : C07_note_only_stmt c.
Proof.
  intros Hok s. destruct (cfg_ok_instr_inv c Hok) as (HT & -> & _).
  rewrite matchb_correct. apply note_lang; exact HT.
Qed.

Lemma C07_sp_only c : C07_sp_only_stmt c.
Proof.
  intros Hok s. destruct (cfg_ok_instr_inv c Hok) as (HT & _ & -> & _).
  rewrite matchb_correct. apply sp_lang; exact HT.
Qed.

Lemma C07_tev_only c : C07_tev_only_stmt c.
Proof.
  intros Hok s. destruct (cfg_ok_instr_inv c Hok) as (HT & _ & _ & -> & _).
  rewrite matchb_correct. apply tev_lang; exact HT.
Qed.

Lemma C07_note_accept c : C07_note_accept_stmt c.
Proof.
  intros Hok s t i l Hsh Hst Hsl.
  assert (Hm : matchb (tbl c) (re_note c) s = true) by (apply C07_note_only; eauto).
  destruct (cfg_ok_instr_inv c Hok) as (HT & _ & _ & _ & _ & Hnti).
  unfold dec. cbn [re_of_kind]. rewrite Hm.
  destruct Hsh as (p & q & Hp & Hq & Hdt & Hdl & Hi & ->). unfold S_.
  rewrite (extract_note c HT p t (Z.to_N (48 + i)) l q); try assumption.
  - replace (Z.of_N (Z.to_N (48 + i)) - 48) with i by lia. reflexivity.
  - replace (Z.of_N (Z.to_N (48 + i)) - 48) with i by lia. apply Hnti; exact Hi.
Qed.

Lemma C07_sp_accept c : C07_sp_accept_stmt c.
Proof.
  intros Hok s t l Hsh Hst Hsl.
  assert (Hm : matchb (tbl c) (re_sp c) s = true) by (apply C07_sp_only; eauto).
  destruct (cfg_ok_instr_inv c Hok) as (HT & _ & _ & _ & Hlit & _).
  unfold dec. cbn [re_of_kind]. rewrite Hm.
  destruct Hsh as (p & q & Hp & Hq & Hdt & Hdl & ->). unfold S_.
  apply extract_sp; assumption.
Qed.

Lemma C07_tev_accept c : C07_tev_accept_stmt c.
Proof.
  intros Hok s t w Hsh Hst.
  assert (Hm : matchb (tbl c) (re_tev c) s = true) by (apply C07_tev_only; eauto).
  destruct (cfg_ok_instr_inv c Hok) as (HT & _).
  unfold dec. cbn [re_of_kind]. rewrite Hm.
  destruct Hsh as (p & q & Hp & Hq & Hdt & Hw & ->). unfold S_.
  apply extract_tev; assumption.
Qed.

Lemma C07_reject c : C07_reject_stmt c.
Proof. intros k s H. unfold dec. rewrite H. reflexivity. Qed.

Lemma C07_disjoint c : C07_disjoint_stmt c.
Proof.
  intros Hok s. destruct (cfg_ok_instr_inv c Hok) as (HT & -> & -> & -> & _).
  rewrite !matchb_correct. unfold ref_note, ref_sp, ref_tev.
  repeat split; intros [H1 H2];
    pose proof (fun h1 h2 => Lang_head_lit_agree _ HT _ _ _ _ _ h1 h2 H1 H2) as G;
    destruct (G eq_refl eq_refl) as (r & r' & E & _);
    rewrite ?ofs_N, ?ofs_S2, ?ofs_E in E; discriminate E.
Qed.

Lemma ascii_digits_eq ds : ascii_digits ds = map (fun d => N.of_nat (48 + d)) ds.
Proof. destruct ds; reflexivity. Qed.

Lemma value_of_fold ds acc : value_of ds acc = fold_left (fun a d => a * 10 + Z.of_nat d) ds acc.
Proof. revert acc. induction ds as [|d ds IH]; intro acc; cbn [value_of fold_left]; [reflexivity | apply IH]. Qed.

Lemma C07_decimal c : C07_decimal_stmt c.
Proof.
  intros HT ds Hds. rewrite ascii_digits_eq, value_of_fold. apply horner_ascii; assumption.
Qed.
