(** Proofs/C12.v — Time is a non-decreasing function of tick across the whole chart. *)
From CP Require Import Base.Prelude Base.Str Base.Float64 Base.Timedelta Model.Sync Model.Instrument
  Spec.FloatSpec Spec.C11 Spec.Tempo Spec.C12 Proofs.FloatMono Proofs.FloatAcc Proofs.C11.
From Coq Require Import Reals Lra Lia.
Open Scope Z_scope.

(** * The governing event, by structural recursion (same shape as [scan_from]) *)

Fixpoint gove (l : list bpm_event) (t : Z) : option bpm_event :=
  match l with
  | [] => None
  | e :: rest =>
      match rest with
      | [] => Some e
      | nxt :: _ => if t <? b_tick nxt then Some e else gove rest t
      end
  end.

Lemma gove_cons2 e nxt r t :
  gove (e :: nxt :: r) t = if t <? b_tick nxt then Some e else gove (nxt :: r) t.
Proof. reflexivity. Qed.

Lemma scan_nth l : forall idx t, l <> [] ->
  exists k : nat, scan_from l idx t = idx + Z.of_nat k /\ nth_error l k = gove l t.
Proof.
  induction l as [|e rest IH]; intros idx t Hne; [congruence|].
  destruct rest as [|nxt r].
  - exists 0%nat. simpl. split; [lia | reflexivity].
  - rewrite gove_cons2.
    change (scan_from (e :: nxt :: r) idx t)
      with (if t <? b_tick nxt then idx else scan_from (nxt :: r) (idx + 1) t).
    destruct (t <? b_tick nxt).
    + exists 0%nat. simpl. split; [lia | reflexivity].
    + destruct (IH (idx + 1) t) as [k [Hk1 Hk2]]; [discriminate|].
      exists (S k). split; [lia | exact Hk2].
Qed.

Lemma gove_le res rest : forall e t p,
  chained res (e :: rest) -> b_tick e <= t -> gove (e :: rest) t = Some p -> b_tick p <= t.
Proof.
  induction rest as [|nxt r IH]; intros e t p Hc Hle Hg.
  - simpl in Hg. inversion Hg; subst. exact Hle.
  - rewrite gove_cons2 in Hg. destruct Hc as [_ Hc].
    destruct (t <? b_tick nxt) eqn:E.
    + inversion Hg; subst. exact Hle.
    + apply Z.ltb_ge in E. exact (IH nxt t p Hc E Hg).
Qed.

(** * The query as a relation on the governing event *)

Definition Q (res : Z) (l : list bpm_event) (t u : Z) : Prop :=
  exists p d, gove l t = Some p /\ seg_us (b_bpm p) res (t - b_tick p) = Ok d /\ u = b_ts p + d.

Lemma Q_inv_last res e t u :
  Q res [e] t u -> exists d, seg_us (b_bpm e) res (t - b_tick e) = Ok d /\ u = b_ts e + d.
Proof.
  intros (p & d & Hg & Hs & Hu). simpl in Hg. inversion Hg; subst p. exists d. auto.
Qed.

Lemma Q_inv_here res e nxt r t u :
  Q res (e :: nxt :: r) t u -> t < b_tick nxt ->
  exists d, seg_us (b_bpm e) res (t - b_tick e) = Ok d /\ u = b_ts e + d.
Proof.
  intros (p & d & Hg & Hs & Hu) Hlt. rewrite gove_cons2 in Hg.
  apply Z.ltb_lt in Hlt. rewrite Hlt in Hg. inversion Hg; subst p. exists d. auto.
Qed.

Lemma Q_inv_there res e nxt r t u :
  Q res (e :: nxt :: r) t u -> b_tick nxt <= t -> Q res (nxt :: r) t u.
Proof.
  intros (p & d & Hg & Hs & Hu) Hle. rewrite gove_cons2 in Hg.
  apply Z.ltb_ge in Hle. rewrite Hle in Hg. exists p, d. auto.
Qed.

Lemma time_add_seconds_ok ts s u :
  time_add_seconds ts s = Ok u -> exists d, td_of_seconds s = Ok d /\ u = ts + d.
Proof.
  unfold time_add_seconds. intro H. apply bind_ok in H. destruct H as [d [Hd H]].
  exists d. split; [exact Hd|].
  unfold td_add, td_check in H. destruct (td_in_range (ts + d)); [|discriminate H].
  inversion H. reflexivity.
Qed.

Lemma ts0_Q B t u idx :
  tempo_wf B -> timestamp_at_tick B t 0 = Ok (u, idx) -> Q (resolution B) (evs B) t u.
Proof.
  intros (Hres & (e0 & rest & Hev & Ht0 & Hts0) & Hch) H.
  apply timestamp_at_tick_ok_inv in H.
  destruct H as [Hi (p & s & Hn & Hsec & Hadd)].
  rewrite Hev in *.
  unfold index_of_proximal in Hi.
  change (0 <? 0) with false in Hi. cbv iota in Hi.
  destruct (Zlength_ (e0 :: rest) - 1 <? 0); [discriminate Hi|].
  change (skipn (Z.to_nat 0) (e0 :: rest)) with (e0 :: rest) in Hi. cbv iota beta in Hi.
  destruct (t <? b_tick e0) eqn:Et; [discriminate Hi|].
  apply Z.ltb_ge in Et.
  assert (Hidx : scan_from (e0 :: rest) 0 t = idx) by (inversion Hi; reflexivity). clear Hi.
  destruct (scan_nth (e0 :: rest) 0 t) as [k [Hk1 Hk2]]; [discriminate|].
  rewrite Hk1 in Hidx. subst idx.
  unfold nth_Z in Hn.
  destruct (0 + Z.of_nat k <? 0) eqn:E0; [apply Z.ltb_lt in E0; lia|].
  replace (Z.to_nat (0 + Z.of_nat k)) with k in Hn by lia.
  rewrite Hk2 in Hn.
  pose proof (gove_le _ _ _ _ _ Hch Et Hn) as Hle.
  apply time_add_seconds_ok in Hadd. destruct Hadd as [d [Hd Hu]].
  exists p, d. split; [exact Hn|]. split; [|exact Hu].
  unfold seg_us. unfold tick_between in Hsec.
  replace (Z.abs (b_tick p - t)) with (t - b_tick p) in Hsec by lia.
  rewrite Hsec. simpl. exact Hd.
Qed.

Lemma ts_of_Q B t u : tempo_wf B -> ts_of B t = Ok u -> Q (resolution B) (evs B) t u.
Proof.
  intros Hwf H. unfold ts_of, timestamp_at_tick_no_optimize_return in H.
  apply bind_ok in H. destruct H as [[ts idx] [Hq H]]. simpl in H. inversion H; subst ts.
  exact (ts0_Q B t u idx Hwf Hq).
Qed.

(** * Monotonicity along a chained list *)

Lemma Q_lower res t u rest : forall e,
  chained res (e :: rest) -> b_tick e <= t -> Q res (e :: rest) t u -> b_ts e <= u.
Proof.
  induction rest as [|nxt r IH]; intros e Hc Hle HQ.
  - apply Q_inv_last in HQ. destruct HQ as [d [Hd Hu]].
    pose proof (dur_nonneg _ _ _ _ Hd). lia.
  - destruct Hc as [[Hlt (d' & Hd' & Hts')] Hc].
    pose proof (dur_nonneg _ _ _ _ Hd') as Hnn.
    destruct (Z_lt_le_dec t (b_tick nxt)) as [Hl|Hg].
    + apply Q_inv_here in HQ; [|exact Hl]. destruct HQ as [d [Hd Hu]].
      pose proof (dur_nonneg _ _ _ _ Hd). lia.
    + apply Q_inv_there in HQ; [|exact Hg].
      pose proof (IH nxt Hc Hg HQ). lia.
Qed.

Lemma Q_mono res a b ua ub rest : a <= b -> forall e,
  chained res (e :: rest) -> b_tick e <= a ->
  Q res (e :: rest) a ua -> Q res (e :: rest) b ub -> ua <= ub.
Proof.
  intro Hab. induction rest as [|nxt r IH]; intros e Hc Hle Ha Hb.
  - apply Q_inv_last in Ha. destruct Ha as [da [Hda Hua]].
    apply Q_inv_last in Hb. destruct Hb as [db [Hdb Hub]].
    assert (da <= db); [|lia].
    apply (dur_mono (b_bpm e) res (a - b_tick e) (b - b_tick e)); [lia | exact Hda | exact Hdb].
  - pose proof Hc as [[Hlt (d' & Hd' & Hts')] Hc'].
    destruct (Z_lt_le_dec a (b_tick nxt)) as [Hal|Hag].
    + apply Q_inv_here in Ha; [|exact Hal]. destruct Ha as [da [Hda Hua]].
      destruct (Z_lt_le_dec b (b_tick nxt)) as [Hbl|Hbg].
      * apply Q_inv_here in Hb; [|exact Hbl]. destruct Hb as [db [Hdb Hub]].
        assert (da <= db); [|lia].
        apply (dur_mono (b_bpm e) res (a - b_tick e) (b - b_tick e));
          [lia | exact Hda | exact Hdb].
      * apply Q_inv_there in Hb; [|exact Hbg].
        pose proof (Q_lower _ _ _ _ _ Hc' Hbg Hb) as Hlow.
        assert (da <= d'); [|lia].
        apply (dur_mono (b_bpm e) res (a - b_tick e) (b_tick nxt - b_tick e));
          [lia | exact Hda | exact Hd'].
    + apply Q_inv_there in Ha; [|exact Hag].
      apply Q_inv_there in Hb; [|lia].
      exact (IH nxt Hc' Hag Ha Hb).
Qed.

Lemma C12_mono : C12_mono_stmt.
Proof.
  unfold C12_mono_stmt. intros B a b ua ub Hwf Hab Ha Hb.
  pose proof (ts_of_Q B a ua Hwf Ha) as Qa.
  pose proof (ts_of_Q B b ub Hwf Hb) as Qb.
  destruct Hwf as (Hres & (e0 & rest & Hev & Ht0 & Hts0) & Hch).
  rewrite Hev in *.
  apply (Q_mono (resolution B) a b ua ub rest (proj2 Hab) e0 Hch); [lia | exact Qa | exact Qb].
Qed.

(** * Strict monotonicity *)

Definition okn (res b n : Z) : Prop :=
  1 <= n <= 10 ^ 9 /\ n * res <= 30000000000 /\ (seg_exact n res b <= 10 ^ 12)%R.

Lemma seg_exact_mono n R k1 k2 :
  1 <= n -> 1 <= R -> k1 <= k2 -> (seg_exact n R k1 <= seg_exact n R k2)%R.
Proof.
  intros Hn HR Hk. unfold seg_exact, Rdiv.
  apply Rmult_le_compat_r.
  - left. apply Rinv_0_lt_compat. apply Rmult_lt_0_compat; apply IZR_lt; lia.
  - apply Rmult_le_compat_r; [lra | apply IZR_le; exact Hk].
Qed.

Lemma dur_strict_b n res b k1 k2 u1 u2 :
  1 <= res < 2 ^ 53 -> okn res b n -> 0 <= k1 < k2 -> k2 <= b -> b < 2 ^ 53 ->
  seg_us (bpm_of_n n) res k1 = Ok u1 -> seg_us (bpm_of_n n) res k2 = Ok u2 -> u1 < u2.
Proof.
  intros Hres (Hn & HnR & Hex) Hk Hkb Hb H1 H2.
  apply (dur_strict n res k1 k2 u1 u2); try assumption; [lia|].
  eapply Rle_trans; [|exact Hex].
  apply seg_exact_mono; lia.
Qed.

Lemma Q_strict res a b ua ub :
  1 <= res < 2 ^ 53 -> a < b -> b < 2 ^ 53 ->
  forall rest e tm,
  chained res (e :: rest) -> matches_tm (e :: rest) tm ->
  Forall (fun p => okn res b (snd p)) tm ->
  0 <= b_tick e <= a ->
  Q res (e :: rest) a ua -> Q res (e :: rest) b ub -> ua < ub.
Proof.
  intros Hres Hab Hb53.
  induction rest as [|nxt r IH]; intros e tm Hc Hm Hok Hle Ha Hb.
  - apply Q_inv_last in Ha. destruct Ha as [da [Hda Hua]].
    apply Q_inv_last in Hb. destruct Hb as [db [Hdb Hub]].
    inversion Hm as [|e' p0 l' tml [Htk Hbpm] Hm']; subst.
    inversion Hok as [|p0' tml' Hok0 Hok']; subst.
    rewrite Hbpm in Hda, Hdb.
    assert (da < db); [|lia].
    apply (dur_strict_b (snd p0) res b (a - b_tick e) (b - b_tick e)); try assumption; lia.
  - pose proof Hc as [[Hlt (d' & Hd' & Hts')] Hc'].
    inversion Hm as [|e' p0 l' tml [Htk Hbpm] Hm']; subst.
    inversion Hok as [|p0' tml' Hok0 Hok']; subst.
    destruct (Z_lt_le_dec a (b_tick nxt)) as [Hal|Hag].
    + apply Q_inv_here in Ha; [|exact Hal]. destruct Ha as [da [Hda Hua]].
      rewrite Hbpm in Hda, Hd'.
      destruct (Z_lt_le_dec b (b_tick nxt)) as [Hbl|Hbg].
      * apply Q_inv_here in Hb; [|exact Hbl]. destruct Hb as [db [Hdb Hub]].
        rewrite Hbpm in Hdb.
        assert (da < db); [|lia].
        apply (dur_strict_b (snd p0) res b (a - b_tick e) (b - b_tick e));
          try assumption; lia.
      * apply Q_inv_there in Hb; [|exact Hbg].
        pose proof (Q_lower _ _ _ _ _ Hc' Hbg Hb) as Hlow.
        assert (da < d'); [|lia].
        apply (dur_strict_b (snd p0) res b (a - b_tick e) (b_tick nxt - b_tick e));
          try assumption; lia.
    + apply Q_inv_there in Ha; [|exact Hag].
      apply Q_inv_there in Hb; [|lia].
      apply (IH nxt tml Hc' Hm' Hok'); [lia | exact Ha | exact Hb].
Qed.

Lemma C12_strict : C12_strict_stmt.
Proof.
  unfold C12_strict_stmt.
  intros B tm a b ua ub Hwf Hm Hres Hn Hab Hb53 Hex Ha Hb.
  pose proof (ts_of_Q B a ua Hwf Ha) as Qa.
  pose proof (ts_of_Q B b ub Hwf Hb) as Qb.
  destruct Hwf as (Hres0 & (e0 & rest & Hev & Ht0 & Hts0) & Hch).
  rewrite Hev in *.
  apply (Q_strict (resolution B) a b ua ub Hres (proj2 Hab) Hb53 rest e0 tm Hch Hm);
    [| lia | exact Qa | exact Qb].
  rewrite Forall_forall in *. intros p Hp.
  destruct (Hn p Hp) as [H1 H2]. pose proof (Hex p Hp) as H3.
  unfold okn. auto.
Qed.

(** * Stored timestamps *)

Lemma C12_equal_ticks : C12_equal_ticks_stmt.
Proof.
  unfold C12_equal_ticks_stmt, stored_ok. intros B e1 e2 H1 H2 Ht.
  rewrite Ht in H1. rewrite H1 in H2. inversion H2. auto.
Qed.

Lemma stored_ts_of B e : stored_ok B e -> ts_of B (t_tick e) = Ok (t_ts e).
Proof.
  unfold stored_ok, ts_of, timestamp_at_tick_no_optimize_return. intro H. rewrite H. reflexivity.
Qed.

Lemma C12_events : C12_events_stmt.
Proof.
  unfold C12_events_stmt. intros B e1 e2 Hwf H1 H2 Ht.
  exact (C12_mono B (t_tick e1) (t_tick e2) (t_ts e1) (t_ts e2) Hwf Ht
           (stored_ts_of B e1 H1) (stored_ts_of B e2 H2)).
Qed.

Lemma C12_note : C12_note_stmt.
Proof.
  unfold C12_note_stmt. intros B e longest Hwf [Hst (l' & idx' & Hl' & Hend)] Hl Hl0 Ht0.
  rewrite Hl in Hl'. inversion Hl'; subst l'.
  apply (C12_mono B (n_tick e) (n_tick e + longest) (t_ts (n_at e)) (n_end_ts e) Hwf); [lia | |].
  - exact (stored_ts_of B (n_at e) Hst).
  - unfold ts_of, timestamp_at_tick_no_optimize_return. rewrite Hend. reflexivity.
Qed.
