(** Proofs/C06.v — Sections are framed and routed to the right parser and track key:
    proofs of every statement of Spec/C06.v. *)
From CP Require Import Base.Prelude Base.Str Base.Regex Base.Cfg Base.Float64 Base.Timedelta
  Model.Lines Model.Sync Model.Instrument Model.Chart Spec.RefRegex Spec.ChartSpec Spec.C06.
From CP Require Import Proofs.RegexShapes Proofs.ChartInv.
From Coq Require Import Permutation Lia.
Open Scope Z_scope.

(** * The header recogniser on a rendered header line *)
Lemma header_line_matches T tag : tag_ok tag -> Lang T ref_header (header_line tag).
Proof.
  intros [Hne Hlf]. unfold ref_header.
  apply Lang_seq_Ls. exists (tag ++ [93%N]). split; [reflexivity|].
  cbn [app]. apply Lang_seq_plus_cls. exists tag, [93%N]. repeat split; [exact Hne | | ].
  - revert Hlf. apply Forall_impl. intros a Ha. apply cls_mem_dot. exact Ha.
  - apply (Lang_seq_Ls T "]"%string [eol]). exists []. split; [reflexivity|].
    cbn [seq]. apply Lang_eol. left; reflexivity.
Qed.

Lemma dec_header_line c tag :
  re_header c = ref_header -> tag_ok tag -> dec_header c (header_line tag) = Ok tag.
Proof.
  intros Hre Hok. unfold dec_header. rewrite Hre.
  rewrite (proj2 (matchb_correct (tbl c) ref_header (header_line tag)) (header_line_matches _ _ Hok)).
  destruct Hok as [Hne Hlf].
  change (tl (header_line tag)) with (tag ++ [93%N]).
  rewrite lazy_prefix_intro.
  - reflexivity.
  - revert Hlf. apply Forall_impl. intros a Ha. unfold not_lf.
    destruct (N.eqb_spec a LF); [contradiction | reflexivity].
  - destruct tag; [congruence | cbn [length]; lia].
  - reflexivity.
  - intros v1 v2 _ Hv2 _. destruct v2 as [|b v2]; [congruence|].
    destruct v2 as [|x [|y v2]]; cbn [app]; cbv beta iota.
    + change (N.eqb 93 LF) with false. apply andb_false_r.
    + apply andb_false_r.
    + apply andb_false_r.
Qed.

(** * The framer *)
Lemma ploop_app c all st i l1 l2 :
  ploop c all st i (l1 ++ l2) =
  (let* st' := ploop c all st i l1 in ploop c all st' (i + length l1) l2).
Proof.
  revert st i. induction l1 as [|x l1 IH]; intros st i; cbn [app ploop length].
  - cbn [bind]. rewrite Nat.add_0_r. reflexivity.
  - destruct (pstep c all st i x) as [st'|e]; cbn [bind]; [|reflexivity].
    rewrite IH. replace (S i + length l1)%nat with (i + S (length l1))%nat by lia. reflexivity.
Qed.

Lemma ploop_body c all tag first d i body :
  body_ok body ->
  ploop c all {| ps_tag := Some tag; ps_first := first; ps_dict := d |} i body
  = Ok {| ps_tag := Some tag; ps_first := first; ps_dict := d |}.
Proof.
  intro H. revert i. induction H as [|l body [H1 H2] _ IH]; intro i; cbn [ploop]; [reflexivity|].
  unfold pstep; cbn [ps_tag].
  apply str_eqb_neq in H1, H2. rewrite H1, H2. cbn [bind]. apply IH.
Qed.

Lemma skipn_SS_app {A} (pre : list A) a b rest :
  skipn (S (S (length pre))) (pre ++ a :: b :: rest) = rest.
Proof.
  replace (pre ++ a :: b :: rest) with ((pre ++ [a; b]) ++ rest) by (rewrite <- app_assoc; reflexivity).
  replace (S (S (length pre))) with (length (pre ++ [a; b])) by (rewrite app_length; cbn; lia).
  apply skipn_length_app.
Qed.

(** One complete section, starting and ending in the idle state. *)
Lemma ploop_sec c all pre tag body post d :
  re_header c = ref_header -> tag_ok tag -> body_ok body ->
  all = pre ++ sec_lines (tag, body) ++ post ->
  ploop c all {| ps_tag := None; ps_first := None; ps_dict := d |} (length pre) (sec_lines (tag, body))
  = Ok {| ps_tag := None; ps_first := None; ps_dict := dict_set tag body d |}.
Proof.
  intros Hre Htag Hbody Hall. unfold sec_lines in *. cbn [fst snd] in *.
  cbn [ploop]. unfold pstep at 1; cbn [ps_tag ps_first ps_dict].
  rewrite (dec_header_line c tag Hre Htag). cbn [bind].
  unfold pstep at 1; cbn [ps_tag ps_first ps_dict]. rewrite str_eqb_refl. cbn [bind].
  rewrite ploop_app, (ploop_body c all tag _ d _ body Hbody). cbn [bind ploop].
  unfold pstep; cbn [ps_tag ps_first ps_dict].
  change (str_eqb CLOSE_BRACE OPEN_BRACE) with false. rewrite str_eqb_refl. cbn [bind].
  do 3 f_equal. unfold islice.
  replace (S (S (length pre)) + length body - S (S (length pre)))%nat with (length body) by lia.
  rewrite Hall. cbn [app]. rewrite skipn_SS_app, <- app_assoc. apply firstn_length_app.
Qed.

Lemma sec_lines_length s : length (sec_lines s) = (length (snd s) + 3)%nat.
Proof. unfold sec_lines. cbn [length]. rewrite app_length. cbn [length]. lia. Qed.

Lemma ploop_secs c all secs : forall pre d,
  re_header c = ref_header ->
  Forall (fun s => tag_ok (fst s) /\ body_ok (snd s)) secs ->
  all = pre ++ lines_of secs ->
  ploop c all {| ps_tag := None; ps_first := None; ps_dict := d |} (length pre) (lines_of secs)
  = Ok {| ps_tag := None; ps_first := None;
          ps_dict := fold_left (fun d s => dict_set (fst s) (snd s) d) secs d |}.
Proof.
  induction secs as [|[tag body] secs IH]; intros pre d Hre Hok Hall.
  - reflexivity.
  - inversion Hok as [|s l [Ht Hb] Hok']; subst s l. cbn [fst snd] in Ht, Hb.
    unfold lines_of in *. cbn [flat_map] in *. fold (lines_of secs) in *.
    rewrite ploop_app.
    rewrite (ploop_sec c all pre tag body (flat_map sec_lines secs) d Hre Ht Hb Hall). cbn [bind].
    rewrite <- app_length. cbn [fold_left fst snd].
    apply IH; [exact Hre | exact Hok' |]. rewrite Hall, app_assoc. reflexivity.
Qed.

Lemma C06_frame_gen : C06_frame_gen_stmt.
Proof.
  intros c secs Hc Hok. unfold partition.
  pose proof (ploop_secs c (lines_of secs) secs [] [] (cfg_ok_chart_header c Hc) Hok eq_refl) as H.
  cbn [length] in H. rewrite H. reflexivity.
Qed.

Lemma C06_frame : C06_frame_stmt.
Proof.
  intros c secs Hc [Hnd Hok]. rewrite (C06_frame_gen c secs Hc Hok).
  rewrite fold_dict_set_nodup; [reflexivity | exact Hnd].
Qed.

(** * LF versus CRLF *)
Lemma splitlines_aux_line T nl l rest cur :
  is_break T LF = true -> is_break T CR = true -> nl = NL_LF \/ nl = NL_CRLF -> no_breaks T l ->
  splitlines_aux T (l ++ nl ++ rest) cur = (rev cur ++ l) :: splitlines_aux T rest [].
Proof.
  intros HLF HCR Hnl Hl. revert cur. induction Hl as [|x l Hx _ IH]; intro cur.
  - rewrite app_nil_r. destruct Hnl as [-> | ->]; cbn [app NL_LF NL_CRLF splitlines_aux].
    + rewrite HLF. destruct rest as [|c' rest']; [reflexivity|].
      change (N.eqb LF CR) with false. reflexivity.
    + rewrite HCR. change (N.eqb CR CR && N.eqb LF LF) with true. reflexivity.
  - cbn [app splitlines_aux]. rewrite Hx. rewrite IH. cbn [rev]. rewrite <- app_assoc. reflexivity.
Qed.

Lemma C06_split : C06_split_stmt.
Proof.
  intros T lines nl HLF HCR Hnl Hl. unfold splitlines.
  induction Hl as [|l lines Hl _ IH]; [reflexivity|].
  unfold join in *. cbn [map concat]. rewrite <- app_assoc.
  rewrite (splitlines_aux_line T nl l _ [] HLF HCR Hnl Hl). cbn [rev app]. rewrite IH. reflexivity.
Qed.

(** * BOM and universal newlines *)
Lemma universal_nl_line nl l rest :
  nl = NL_LF \/ nl = NL_CRLF -> Forall (fun ch => ch <> CR /\ ch <> LF) l ->
  universal_nl (l ++ nl ++ rest) = l ++ NL_LF ++ universal_nl rest.
Proof.
  intros Hnl Hl. induction Hl as [|x l [Hx _] _ IH].
  - destruct Hnl as [-> | ->]; reflexivity.
  - cbn [app universal_nl]. apply N.eqb_neq in Hx. rewrite Hx. rewrite IH. reflexivity.
Qed.

Lemma universal_nl_join nl lines :
  nl = NL_LF \/ nl = NL_CRLF -> Forall (Forall (fun ch => ch <> CR /\ ch <> LF)) lines ->
  universal_nl (join nl lines) = join NL_LF lines.
Proof.
  intros Hnl Hl. induction Hl as [|l lines Hl _ IH]; [reflexivity|].
  unfold join in *. cbn [map concat]. rewrite <- !app_assoc.
  rewrite (universal_nl_line nl l _ Hnl Hl), IH. reflexivity.
Qed.

Lemma C06_bom : C06_bom_stmt.
Proof.
  intros c lines want bom nl Hnl Hl Hfirst. unfold from_filepath. f_equal.
  rewrite <- (universal_nl_join nl lines Hnl Hl). f_equal.
  destruct bom.
  - reflexivity.
  - cbn [app]. destruct lines as [|[|ch l] lines].
    + reflexivity.
    + destruct Hnl as [-> | ->]; reflexivity.
    + unfold join; cbn [map concat app strip_bom]. apply N.eqb_neq in Hfirst. rewrite Hfirst. reflexivity.
Qed.

(** * Routing *)
Lemma C06_route_fixed : C06_route_fixed_stmt.
Proof.
  intros c secs want ch logs H. unfold from_secs in H. destruct (negb _); [discriminate|].
  unfold sec_lookup in H.
  destruct (assoc (tag_song c) secs) as [song|]; [|discriminate]. cbn [bind] in H.
  destruct (meta_parse c song) as [meta|] eqn:Em; [|discriminate]. cbn [bind] in H.
  destruct (meta_resolution meta) as [R|] eqn:ER; [|discriminate]. cbn [bind] in H.
  destruct (assoc (tag_sync c) secs) as [sl|]; [|discriminate]. cbn [bind] in H.
  destruct (sync_from_lines c R sl) as [[sync w1]|] eqn:Es; [|discriminate]. cbn [bind] in H.
  destruct (assoc (tag_events c) secs) as [el|]; [|discriminate]. cbn [bind] in H.
  destruct (globals_from_lines c el (st_bpm sync)) as [[gev w2]|] eqn:Eg; [|discriminate]. cbn [bind] in H.
  destruct (route c (st_bpm sync) want secs [] (map LUnparsable w1 ++ map LUnparsable w2))
    as [[tracks lg]|] eqn:Er; [|discriminate]. cbn [bind] in H.
  inversion H; subst; clear H. cbn [c_meta c_sync c_gev c_tracks].
  exists song, sl, el, R, w1, w2. repeat split; assumption.
Qed.

Lemma C06_route_tracks : C06_route_tracks_stmt.
Proof.
  intros c B want secs tracks logs0 logs Hc Hnd H.
  pose proof (route_lookup_nil c B want secs logs0 tracks logs Hnd H) as Hl.
  split; [|split].
  - intros i d tr. rewrite Hl. unfold sec_builds. reflexivity.
  - intros i d tr E. apply Hl in E as (tag & body & ws & _ & _ & _ & Hb).
    eapply itrack_from_lines_labels; exact Hb.
  - exact (route_inner_nonempty c B want secs [] logs0 tracks logs inner_nonempty_nil H).
Qed.

Lemma C06_header : C06_header_stmt.
Proof.
  intros c Hc i d Hi Hd. apply header_lookup_nodup; [|exact Hi | exact Hd].
  apply cfg_ok_chart_inv in Hc. tauto.
Qed.

Lemma C06_route_ok : C06_route_ok_stmt.
Proof. intros c B want secs logs0. apply route_ok_iff. Qed.

(** * Independence of section order *)
Lemma sec_builds_perm c B want secs secs' i d tr :
  Permutation secs secs' -> sec_builds c B want secs i d tr -> sec_builds c B want secs' i d tr.
Proof.
  intros Hp (tag & body & ws & Hin & H). exists tag, body, ws. split; [|exact H].
  eapply Permutation_in; [exact Hp | exact Hin].
Qed.

(** Routing two permutations of sections with distinct headers: both fail, or both succeed with
    equivalent mappings and permuted logs. *)
Lemma route_perm c B want secs secs' l0 :
  NoDup (map fst secs) -> Permutation secs secs' ->
  match route c B want secs [] l0, route c B want secs' [] l0 with
  | Ok (t, l), Ok (t', l') => tracks_equiv t t' /\ Permutation l l'
  | Err _, Err _ => True
  | _, _ => False
  end.
Proof.
  intros Hnd Hp.
  assert (Hnd' : NoDup (map fst secs')).
  { eapply Permutation_NoDup; [apply Permutation_map; exact Hp | exact Hnd]. }
  pose proof (route_ok_iff c B want secs [] l0) as O1.
  pose proof (route_ok_iff c B want secs' [] l0) as O2.
  destruct (route c B want secs [] l0) as [[t l]|e] eqn:E1;
    destruct (route c B want secs' [] l0) as [[t' l']|e'] eqn:E2.
  - split.
    + apply tracks_equiv_of_lookup.
      * exact (route_inner_nonempty c B want secs [] l0 t l inner_nonempty_nil E1).
      * exact (route_inner_nonempty c B want secs' [] l0 t' l' inner_nonempty_nil E2).
      * intros i d. apply (option_eq_of_iff _ _ (sec_builds c B want secs i d)).
        -- apply (route_lookup_nil c B want secs l0 t l Hnd E1).
        -- intro tr. rewrite (route_lookup_nil c B want secs' l0 t' l' Hnd' E2 i d tr).
           split; apply sec_builds_perm; [apply Permutation_sym|]; exact Hp.
    + rewrite (route_logs c B want secs [] l0 t l E1), (route_logs c B want secs' [] l0 t' l' E2).
      apply Permutation_app_head. apply Permutation_flat_map. exact Hp.
  - assert (Hf : Forall (builds c B want) secs) by (apply O1; eexists; reflexivity).
    eapply Permutation_Forall in Hf; [|exact Hp]. apply O2 in Hf as [r Hr]. discriminate.
  - assert (Hf : Forall (builds c B want) secs') by (apply O2; eexists; reflexivity).
    eapply Permutation_Forall in Hf; [|apply Permutation_sym; exact Hp]. apply O1 in Hf as [r Hr]. discriminate.
  - exact I.
Qed.

Lemma C06_perm : C06_perm_stmt.
Proof.
  intros c secs secs' want Hc Hnd Hp. rewrite !from_secs_split.
  rewrite <- (fixed_part_perm c secs secs' Hnd Hp).
  destruct (fixed_part c secs) as [[[[meta sync] gev] l0]|e]; cbn [bind]; [|exact I].
  unfold finish. pose proof (route_perm c (st_bpm sync) want secs secs' l0 Hnd Hp) as H.
  destruct (route c (st_bpm sync) want secs [] l0) as [[t l]|e1];
    destruct (route c (st_bpm sync) want secs' [] l0) as [[t' l']|e2]; cbn [bind parse_equiv];
    try exact H.
  destruct H as [Ht Hl]. split; [|exact Hl]. unfold chart_equiv; cbn [c_meta c_sync c_gev c_tracks]. auto.
Qed.

(** * Unknown sections *)
Lemma C06_unknown : C06_unknown_stmt.
Proof.
  intros c B want s1 tag body s2 acc logs Hh Hm. rewrite route_app.
  destruct (route c B want s1 acc logs) as [[a l]|e]; cbn [bind]; [|reflexivity].
  rewrite route_cons, Hh, Hm. reflexivity.
Qed.

Lemma C06_unknown_chart : C06_unknown_chart_stmt.
Proof.
  intros c s1 tag body s2 want ch logs Hc _ Hh Hm H.
  apply from_secs_ok_inv in H as (l0 & Hf & Hr).
  assert (Hnot : ~ In tag (required_tags c)) by (apply mem_str_false; exact Hm).
  assert (Hassoc : forall t, In t (required_tags c) ->
            assoc t (s1 ++ (tag, body) :: s2) = assoc t (s1 ++ s2)).
  { intros t Ht. apply assoc_app_cons_other. intro E; subst. contradiction. }
  pose proof (cfg_ok_chart_required c Hc) as Hreq.
  assert (Hf' : fixed_part c (s1 ++ (tag, body) :: s2) = fixed_part c (s1 ++ s2)).
  { apply fixed_part_ext.
    - intros t Ht. rewrite (Hassoc t Ht). reflexivity.
    - apply Hassoc. rewrite Hreq. cbn; auto.
    - apply Hassoc. rewrite Hreq. cbn; auto.
    - apply Hassoc. rewrite Hreq. cbn; auto. }
  rewrite route_app in Hr.
  destruct (route c (st_bpm (c_sync ch)) want s1 [] l0) as [[a1 l1]|e] eqn:E1; cbn [bind] in Hr; [|discriminate].
  rewrite route_logs_prefix in Hr.
  destruct (route c (st_bpm (c_sync ch)) want s2 a1 []) as [[a2 l2]|e] eqn:E2; cbn [bind] in Hr; [|discriminate].
  inversion Hr; subst; clear Hr.
  exists ((l1 ++ [LUnhandled tag]) ++ l2). split.
  - rewrite <- Hf' in Hf.
    assert (Hr' : route c (st_bpm (c_sync ch)) want (s1 ++ (tag, body) :: s2) [] l0
                  = Ok (c_tracks ch, (l1 ++ [LUnhandled tag]) ++ l2)).
    { rewrite (C06_unknown c _ want s1 tag body s2 [] l0 Hh Hm), E1. cbn [bind].
      rewrite route_logs_prefix, E2. cbn [bind]. reflexivity. }
    rewrite (from_secs_of_parts c _ want _ _ _ _ _ _ Hf Hr'). destruct ch; reflexivity.
  - rewrite <- app_assoc. cbn [app]. apply Permutation_sym, Permutation_middle.
Qed.

(** * Required sections *)
Lemma C06_required : C06_required_stmt.
Proof.
  intros c secs want t Hin Hnone. unfold from_secs.
  rewrite (forallb_false_in _ (required_tags c) t Hin); [reflexivity|].
  rewrite Hnone. reflexivity.
Qed.
