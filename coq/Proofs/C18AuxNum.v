(** Proofs/C18AuxNum.v — a range bound for one tempo-segment duration without the
    2*10^6-second cap of the accuracy lemma: totality of [td_of_seconds] on finite
    non-negative floats (closed form [tdR]) and [seg_bound]. *)
From CP Require Import Base.Prelude Base.Float64 Base.Timedelta Model.Sync Spec.FloatSpec.
From CP Require Import Proofs.FloatMonoAux Proofs.FloatAcc.
From Coq Require Import Reals Lra Lia ZifyBool.
From Flocq Require Import Core.Core IEEE754.BinarySingleNaN.
From Interval Require Import Tactic.
Open Scope Z_scope.

(** *** (1) range check *)

Lemma td_in_range_le u : 0 <= u <= 80000000000000000000 -> td_in_range u = true.
Proof.
  intros H. unfold td_in_range, us_per_day, us_per_second, max_days.
  change (86400 * 1000000) with 86400000000.
  set (q := u / 86400000000).
  assert (Hq : 0 <= q <= 999999999).
  { unfold q. split; [apply Z.div_pos; lia | apply Z.div_le_upper_bound; lia]. }
  clearbody q.
  rewrite !(proj2 (Z.leb_le _ _)) by lia.
  reflexivity.
Qed.

Lemma td_check_le u : 0 <= u <= 80000000000000000000 -> td_check u = Ok u.
Proof. intro H. unfold td_check. now rewrite td_in_range_le. Qed.

(** *** (3) bounds on the closed form *)

Lemma tdR_nonneg x : (0 <= x)%R -> 0 <= tdR x.
Proof.
  intro H. unfold tdR.
  pose proof (frac_us_bounds x) as B.
  assert (0 <= Zfloor x) by (apply Zfloor_lub; exact H).
  unfold us_per_second in *. lia.
Qed.

Lemma tdR_upper x : (0 <= x)%R -> (IZR (tdR x) <= 1000000 * x + 1000000)%R.
Proof.
  intro H. unfold tdR.
  pose proof (frac_us_bounds x) as [_ B].
  pose proof (Zfloor_lb x) as L.
  rewrite plus_IZR, mult_IZR.
  apply IZR_le in B. unfold us_per_second in *.
  lra.
Qed.

(** *** (2) totality of [td_of_seconds] on finite non-negative floats *)

Lemma td_of_seconds_total s : is_finite s = true -> Bsign s = false ->
  exists v, td_of_seconds s = td_check v /\ 0 <= v /\ v = tdR (B2R s).
Proof.
  intros Hfin Hsg.
  assert (Hpos0 : (0 <= B2R s)%R).
  { destruct s as [sz|si| |[|] m e Hb]; try discriminate; cbn [B2R]; try lra.
    apply F2R_ge_0; cbn; lia. }
  cut (exists v, td_of_seconds s = td_check v /\ v = tdR (B2R s)).
  { intros (v & H1 & H2). exists v. split; [exact H1|]. split; [|exact H2].
    subst v. now apply tdR_nonneg. }
  clear Hpos0.
  destruct s as [sz|si| |[|] m e Hb]; try discriminate; unfold td_of_seconds.
  - exists 0. split; [reflexivity|]. cbn [B2R]. now rewrite (tdR_int 0).
  - cbn [B2R cond_Zopp].
    destruct (0 <=? e) eqn:Ee.
    + apply Z.leb_le in Ee. eexists; split; [reflexivity|].
      unfold F2R; cbn [Fnum Fexp]. rewrite bpow_nonneg_IZR by lia.
      rewrite <- mult_IZR, tdR_int. reflexivity.
    + apply Z.leb_gt in Ee. cbv zeta.
      assert (Hd : 0 < 2 ^ (- e)) by (apply Z.pow_pos_nonneg; lia).
      set (d := 2 ^ (- e)) in *.
      assert (Hd' : (0 < IZR d)%R) by (apply IZR_lt; lia).
      set (ip := Zpos m / d) in *. set (fm := Zpos m mod d) in *.
      assert (Hm : Zpos m = d * ip + fm) by (apply Z_div_mod_eq_full).
      assert (Hfm : 0 <= fm < d) by (apply Z.mod_pos_bound; lia).
      assert (Hx : F2R (Float radix2 (Zpos m) e) = (IZR (Zpos m) / IZR d)%R).
      { unfold F2R; cbn [Fnum Fexp]. rewrite bpow_neg_inv by lia. reflexivity. }
      rewrite Hx. unfold tdR.
      assert (Hfl : Zfloor (IZR (Zpos m) / IZR d) = ip) by (apply Zfloor_div; lia).
      rewrite Hfl.
      assert (Hfr : ((IZR (Zpos m) / IZR d - IZR ip) * IZR us_per_second
                     = F2R (Float radix2 (fm * us_per_second) e))%R).
      { unfold F2R; cbn [Fnum Fexp]. rewrite bpow_neg_inv by lia. fold d.
        rewrite Hm, plus_IZR, !mult_IZR. field. lra. }
      rewrite Hfr.
      assert (Hv0 : (0 <= F2R (Float radix2 (fm * us_per_second) e))%R).
      { apply F2R_ge_0. cbn [Fnum]. unfold us_per_second. lia. }
      assert (Hv1 : (F2R (Float radix2 (fm * us_per_second) e) <= IZR us_per_second)%R).
      { rewrite <- Hfr.
        rewrite <- (Rmult_1_l (IZR us_per_second)) at 2.
        apply Rmult_le_compat_r. apply IZR_le; unfold us_per_second; lia.
        assert (IZR (Zpos m) / IZR d - IZR ip = IZR fm / IZR d)%R as ->.
        { rewrite Hm, plus_IZR, mult_IZR. field. lra. }
        apply Rmult_le_reg_r with (IZR d); [lra|].
        unfold Rdiv. rewrite Rmult_assoc, Rinv_l, Rmult_1_r, Rmult_1_l by lra.
        apply IZR_le. lia. }
      destruct (fm =? 0) eqn:Efm.
      * apply Z.eqb_eq in Efm. eexists; split; [reflexivity|].
        rewrite Efm. rewrite Z.mul_0_l, F2R_0, RN_0, (ZnearestE_IZR 0). lia.
      * generalize (binary_normalize_correct prec emax Hprec Hemax mode_NE
                      (fm * us_per_second) e false).
        cbv zeta. fold (F (fm * us_per_second) e).
        rewrite Rlt_bool_true.
        2:{ change (round radix2 (SpecFloat.fexp prec emax) (round_mode mode_NE)) with RN.
            rewrite Rabs_pos_eq by now apply RN_ge_0.
            apply Rle_lt_trans with (2 := us_lt_emax).
            rewrite <- (RN_small_int us_per_second) by (unfold us_per_second; lia).
            now apply RN_le. }
        change (round radix2 (SpecFloat.fexp prec emax) (round_mode mode_NE)) with RN.
        intros (HR & HF & HS).
        rewrite <- HR.
        destruct (F (fm * us_per_second) e) as [s2|s2| |s2 m2 e2 Hb2]; try discriminate.
        -- eexists; split; [reflexivity|]. cbn [B2R]. rewrite (ZnearestE_IZR 0). lia.
        -- assert (s2 = false) as ->.
           { cbn [Bsign] in HS. rewrite HS.
             destruct (Rcompare_spec (F2R (Float radix2 (fm * us_per_second) e)) 0);
               try reflexivity. lra. }
           cbn [B2R cond_Zopp].
           pose proof (ZnearestE_pos_float m2 e2 (ip * us_per_second +
                        (if 0 <=? e2 then Zpos m2 * 2 ^ e2 else Zpos m2 / 2 ^ (- e2)))
                        (odd_total _ _)) as HZ.
           rewrite <- HZ. clear HZ.
           destruct (0 <=? e2); cbv zeta; (eexists; split; [reflexivity|]); lia.
Qed.

(** *** (4) the segment bound *)

Lemma seconds_sign k b R s : seconds k b R = Ok s -> Bsign s = false.
Proof.
  intro H. apply seconds_ok in H as (Hk & Hkf & -> & Hs).
  apply Bsign_fmul; [|exact Hs].
  now apply of_Z_correct.
Qed.

Lemma seg_bound n R k :
  1 <= n < 10 ^ 8 -> 1 <= R < 10 ^ 8 -> 0 <= k <= 10 ^ 9 ->
  exists s u, seconds k (bpm_of_n n) R = Ok s /\ td_of_seconds s = Ok u /\
              0 <= u <= k * 60001000001.
Proof.
  change (10 ^ 8) with 100000000. change (10 ^ 9) with 1000000000.
  intros Hn HR Hk.
  destruct (Z.eq_dec k 0) as [->|Hk0].
  - assert (H0 : seg_us (bpm_of_n n) R 0 = Ok 0).
    { apply dur_zero.
      - change (2 ^ 52) with 4503599627370496. lia.
      - change (2 ^ 53) with 9007199254740992. lia. }
    unfold seg_us in H0.
    destruct (seconds 0 (bpm_of_n n) R) as [s|err]; cbn [bind] in H0; [|discriminate].
    exists s, 0. split; [reflexivity|]. split; [exact H0|]. lia.
  - destruct (seconds_acc n R k) as (s & d & Hs & Fs & Vs & Hd).
    { change (2 ^ 52) with 4503599627370496. lia. }
    { change (2 ^ 53) with 9007199254740992. lia. }
    { change (2 ^ 53) with 9007199254740992. lia. }
    pose proof (seconds_sign _ _ _ _ Hs) as Sg.
    destruct (td_of_seconds_total s Fs Sg) as (v & Hv & Hv0 & Ev).
    assert (Hnn : (1 <= IZR n <= 100000000)%R) by (split; apply IZR_le; lia).
    assert (Hrr : (1 <= IZR R <= 100000000)%R) by (split; apply IZR_le; lia).
    assert (Hkk : (1 <= IZR k <= 1000000000)%R) by (split; apply IZR_le; lia).
    assert (Hs0 : (0 <= B2R s)%R).
    { rewrite Vs. interval with (i_prec 64). }
    assert (Hs1 : (B2R s <= IZR k * 60000 * (1 + 6 * bpow radix2 (-53)))%R).
    { rewrite Vs.
      assert (Hq : (0 <= IZR k * 60000 / (IZR n * IZR R) <= IZR k * 60000)%R).
      { split; [interval with (i_prec 64)|].
        unfold Rdiv. rewrite <- (Rmult_1_r (IZR k * 60000)) at 2.
        apply Rmult_le_compat_l; [lra|].
        rewrite <- Rinv_1. apply Rinv_le_contravar; [lra|]. nra. }
      assert (Hd' : (0 <= 1 + d <= 1 + 6 * bpow radix2 (-53))%R).
      { apply Rabs_le_inv in Hd. split; [|lra].
        assert (6 * bpow radix2 (-53) <= 1)%R by interval. lra. }
      apply Rmult_le_compat; lra. }
    assert (Hvz : v <= k * 60001000001).
    { apply le_IZR. rewrite Ev.
      eapply Rle_trans; [apply tdR_upper; exact Hs0|].
      rewrite mult_IZR.
      assert (E : (6 * bpow radix2 (-53) <= 1 / 60000000000)%R) by interval.
      nra. }
    exists s, v. split; [exact Hs|]. split; [|lia].
    rewrite Hv. apply td_check_le. lia.
Qed.
