(** Proofs/Render.v — capstone theorems of Spec/Render.v: canonical rendering of abstract section
    contents is read back exactly.  [numeral] is the ASCII decimal numeral; every rendered line is
    claimed by its own kind with its own data (C07/C08/C09 + C14); the note builder receives the
    abstract note lines; a rendered file is parsed as [from_secs] of its sections (C06). *)
From CP Require Import Base.Prelude Base.Str Base.Regex Base.Cfg Model.Lines Model.Sync Model.Instrument
  Model.Chart Spec.RefRegex Spec.C07 Spec.C08 Spec.C09 Spec.ChartSpec Spec.C06 Spec.Render.
From CP Require Import Proofs.RegexShapes Proofs.C07 Proofs.C08 Proofs.C09 Proofs.C14 Proofs.C06
  Proofs.ChartInv.
From Coq Require Import Lia ZifyBool.
Open Scope Z_scope.
Open Scope string_scope.

Ltac Zify.zify_post_hook ::= Z.to_euclidean_division_equations.

(** * The numeral *)
Lemma le_1_4000 : 1 <= 4000. Proof. lia. Qed.
Lemma le_1_4300 : 1 <= 4300. Proof. lia. Qed.

Section Numeral.
Variable T : tables.
Hypothesis HT : tables_ok T = true.

Lemma digit_char n :
  0 <= n -> (48 <= Z.to_N (48 + n mod 10) <= 57)%N /\
            digit_val T (Z.to_N (48 + n mod 10)) = Some (n mod 10).
Proof.
  intro Hn. assert (Hm : 0 <= n mod 10 < 10) by (apply Z.mod_pos_bound; lia).
  set (m := n mod 10) in *.
  assert (Hd : (48 <= Z.to_N (48 + m) <= 57)%N) by lia.
  split; [exact Hd|]. rewrite (digit_val_asciiN T HT _ Hd). f_equal. lia.
Qed.

Definition ascii_dg (ch : N) : Prop := (48 <= ch <= 57)%N.

(** What [digits_fuel] computes when the fuel suffices. *)
Definition digits_spec (n : Z) (ds : str) : Prop :=
  ds <> [] /\ Forall ascii_dg ds /\ horner T ds 0 = n /\
  (1 <= n -> 10 ^ (Z.of_nat (length ds) - 1) <= n) /\ (n = 0 -> length ds = 1%nat).

Lemma digits_spec_one n : 0 <= n < 10 -> digits_spec n [Z.to_N (48 + n mod 10)].
Proof.
  intro Hn. destruct (digit_char n) as [Hd Hv]; [lia|].
  assert (Em : n mod 10 = n) by (apply Z.mod_small; lia).
  repeat split.
  - discriminate.
  - constructor; [exact Hd | constructor].
  - cbn [horner]. rewrite Hv. lia.
  - intros H1. cbn [length]. change (Z.of_nat 1 - 1) with 0. rewrite Z.pow_0_r. exact H1.
Qed.

Lemma digits_fuel_spec fuel : forall n acc, 0 <= n < 10 ^ Z.of_nat (S fuel) ->
  exists ds, digits_fuel (S fuel) n acc = ds ++ acc /\ digits_spec n ds.
Proof.
  induction fuel as [|fuel IH]; intros n acc Hn.
  - change (10 ^ Z.of_nat 1) with 10 in Hn.
    exists [Z.to_N (48 + n mod 10)]. split; [|apply digits_spec_one; exact Hn].
    cbn [digits_fuel]. destruct (n <? 10) eqn:E; [reflexivity|]. apply Z.ltb_ge in E. lia.
  - cbn [digits_fuel]. destruct (n <? 10) eqn:E.
    + apply Z.ltb_lt in E. exists [Z.to_N (48 + n mod 10)]. split; [reflexivity|].
      apply digits_spec_one. lia.
    + apply Z.ltb_ge in E.
      assert (Hq : 0 <= n / 10 < 10 ^ Z.of_nat (S fuel)).
      { split; [apply Z.div_pos; lia|]. apply Z.div_lt_upper_bound; [lia|].
        rewrite <- Z.pow_succ_r by lia. rewrite <- Nat2Z.inj_succ. apply Hn. }
      destruct (IH (n / 10) (Z.to_N (48 + n mod 10) :: acc) Hq) as (ds' & Eds & Hne & Hasc & Hh & Hlen & _).
      change (digits_fuel (S fuel) (n / 10) (Z.to_N (48 + n mod 10) :: acc)
              = ds' ++ Z.to_N (48 + n mod 10) :: acc) in Eds.
      exists (ds' ++ [Z.to_N (48 + n mod 10)]). split.
      { rewrite <- app_assoc. exact Eds. }
      destruct (digit_char n) as [Hd Hv]; [lia|].
      repeat split.
      * destruct ds'; discriminate.
      * apply Forall_app. split; [exact Hasc | constructor; [exact Hd | constructor]].
      * rewrite horner_app. cbn [horner]. rewrite Hv, Hh.
        pose proof (Z.div_mod n 10 ltac:(lia)). lia.
      * intros _. rewrite app_length. cbn [length].
        assert (Hl1 : (1 <= length ds')%nat) by (destruct ds'; [congruence | cbn; lia]).
        replace (Z.of_nat (length ds' + 1) - 1) with (Z.succ (Z.of_nat (length ds') - 1)) by lia.
        rewrite Z.pow_succ_r by lia.
        assert (H10 : 1 <= n / 10) by (apply Z.div_le_lower_bound; lia).
        specialize (Hlen H10). pose proof (Z.div_mod n 10 ltac:(lia)) as Hdm.
        pose proof (Z.mod_pos_bound n 10 ltac:(lia)). lia.
      * intro E0. lia.
Qed.

Lemma numeral_fuel n : 0 <= n -> n < 10 ^ Z.of_nat (S (Z.to_nat (Z.log2 (Z.max n 1)))).
Proof.
  intro Hn. set (m := Z.max n 1). assert (Hm : 0 < m) by (unfold m; lia).
  pose proof (Z.log2_nonneg m) as Hl. destruct (Z.log2_spec m Hm) as [_ Hup].
  rewrite Nat2Z.inj_succ, Z2Nat.id by exact Hl.
  apply Z.le_lt_trans with m; [unfold m; lia|].
  eapply Z.lt_le_trans; [exact Hup|].
  apply Z.pow_le_mono_l. lia.
Qed.

Lemma numeral_spec n : 0 <= n -> digits_spec n (numeral n).
Proof.
  intro Hn. unfold numeral.
  destruct (digits_fuel_spec (Z.to_nat (Z.log2 (Z.max n 1))) n []) as (ds & E & H).
  - split; [exact Hn | apply numeral_fuel; exact Hn].
  - rewrite E, app_nil_r. exact H.
Qed.

Lemma numeral_ne n : 0 <= n -> numeral n <> [].
Proof. intro H. apply numeral_spec; exact H. Qed.

Lemma numeral_digits n : 0 <= n -> Forall (fun ch => is_digit T ch = true) (numeral n).
Proof.
  intro H. destruct (numeral_spec n H) as (_ & Ha & _).
  revert Ha. apply Forall_impl. intros a Ha. apply (ascii_digit_is_digit T HT). exact Ha.
Qed.

Lemma numeral_horner n : 0 <= n -> horner T (numeral n) 0 = n.
Proof. intro H. apply numeral_spec; exact H. Qed.

(** The number of decimal digits: a number below 10^k has at most k digits (k >= 1). *)
Lemma numeral_length n k : 0 <= n -> 1 <= k -> n < 10 ^ k -> Z.of_nat (length (numeral n)) <= k.
Proof.
  intros Hn Hk Hlt. destruct (numeral_spec n Hn) as (_ & _ & _ & Hlen & H0).
  destruct (Z.eq_dec n 0) as [E|E]; [rewrite (H0 E); lia|].
  assert (H1 : 1 <= n) by lia. specialize (Hlen H1).
  destruct (Z_le_gt_dec (Z.of_nat (length (numeral n))) k) as [Hle|Hgt]; [exact Hle|]. exfalso.
  assert (10 ^ k <= 10 ^ (Z.of_nat (length (numeral n)) - 1)) by (apply Z.pow_le_mono_r; lia).
  lia.
Qed.

Lemma numeral_short n : 0 <= n -> n < 10 ^ 4000 -> short (numeral n).
Proof.
  intros Hn Hlt. unfold short, max_str_digits.
  pose proof (numeral_length n 4000 Hn le_1_4000 Hlt) as H. clear Hlt. lia.
Qed.

End Numeral.

Lemma numeral_small i : 0 <= i < 10 -> numeral i = [Z.to_N (48 + i)].
Proof.
  intro Hi. unfold numeral. cbn [digits_fuel].
  destruct (i <? 10) eqn:E; [|apply Z.ltb_ge in E; lia].
  rewrite Z.mod_small by lia. reflexivity.
Qed.

Lemma numeral_value : numeral_value_stmt.
Proof.
  intros T n HT Hn. destruct (Z.lt_ge_cases n (10 ^ 4300)) as [Hlt|Hge]; [left | right; exact Hge].
  split; [apply (numeral_ne T HT); exact Hn|].
  split; [apply (numeral_digits T HT); exact Hn|].
  split; [apply (numeral_horner T HT); exact Hn|].
  unfold max_str_digits. pose proof (numeral_length T HT n 4300 Hn le_1_4300 Hlt) as H. clear Hlt. lia.
Qed.

(** * Generic dispatcher facts *)
Lemma dec_ok_accepts c k l d : dec c k l = Ok d -> accepts c k l = true.
Proof. unfold dec, accepts. destruct (matchb _ _ l); [reflexivity | discriminate]. Qed.

Lemma try_of_dec c order l k d :
  In k order -> dec c k l = Ok d ->
  (forall k', In k' order -> k' <> k -> accepts c k' l = false) ->
  try_kinds c order l = Ok (Claimed k d).
Proof.
  intros Hin Hd Hoth. rewrite (try_kinds_one c order l k Hin (dec_ok_accepts _ _ _ _ Hd) Hoth).
  unfold claim. rewrite Hd. reflexivity.
Qed.

Lemma dispatch_map {A} c order (f : A -> str) (g : A -> line_outcome) ls :
  Forall (fun l => try_kinds c order (f l) = Ok (g l)) ls ->
  dispatch c order (map f ls) = Ok (map g ls).
Proof.
  unfold dispatch. induction 1 as [|l ls Hl _ IH]; cbn [map mapM]; [reflexivity|].
  rewrite Hl, IH. reflexivity.
Qed.

Lemma digits_p_numeral c n : tables_ok (tbl c) = true -> 0 <= n -> digits_p c (numeral n).
Proof. intros HT Hn. split; [apply (numeral_ne _ HT) | apply (numeral_digits _ HT)]; exact Hn. Qed.

(** * Instrument sections *)
Definition ibound (l : iline) : Prop :=
  match l with
  | INote t i s => t < 10 ^ 4000 /\ s < 10 ^ 4000
  | ISP t s => t < 10 ^ 4000 /\ s < 10 ^ 4000
  | ITev t _ => t < 10 ^ 4000
  end.

Lemma try_iline c pad l :
  cfg_ok_instr c = true -> Forall (fun ch => is_ws (tbl c) ch = true) pad ->
  wf_iline c l -> ibound l -> order_instr c = [KNote; KSP; KTev] ->
  try_kinds c (order_instr c) (render_iline pad l)
  = Ok (Claimed (fst (data_iline l)) (snd (data_iline l))).
Proof.
  intros Hok Hpad Hwf Hb Ho. rewrite Ho.
  destruct (cfg_ok_instr_inv c Hok) as (HT & _).
  pose proof (C07_disjoint c Hok (render_iline pad l)) as (D1 & D2 & D3).
  destruct l as [t i s | t s | t w]; cbn [wf_iline ibound] in Hwf, Hb; cbn [data_iline fst snd].
  - destruct Hwf as (Ht & Hi & Hs). destruct Hb as [Bt Bs].
    assert (Hsh : note_shape c (render_iline pad (INote t i s)) (numeral t) i (numeral s)).
    { exists pad, []. split; [exact Hpad|]. split; [constructor|].
      split; [apply digits_p_numeral; assumption|]. split; [apply digits_p_numeral; assumption|].
      split; [exact Hi|].
      cbn [render_iline]. rewrite (numeral_small i) by (clear - Hi; lia). rewrite app_nil_r. reflexivity. }
    pose proof (C07_note_accept c Hok _ _ _ _ Hsh (numeral_short _ HT t Ht Bt) (numeral_short _ HT s Hs Bs)) as Hd.
    rewrite !(numeral_horner _ HT) in Hd by assumption.
    apply try_of_dec; [left; reflexivity | exact Hd |].
    apply dec_ok_accepts in Hd. unfold accepts in *. cbn [re_of_kind] in Hd.
    intros k' [<-|[<-|[<-|[]]]] Hne; try congruence; cbn [re_of_kind].
    + destruct (matchb _ (re_sp c) _) eqn:E; [exfalso; apply D1; split; first [assumption | reflexivity] | reflexivity].
    + destruct (matchb _ (re_tev c) _) eqn:E; [exfalso; apply D2; split; first [assumption | reflexivity] | reflexivity].
  - destruct Hwf as (Ht & Hs). destruct Hb as [Bt Bs].
    assert (Hsh : sp_shape c (render_iline pad (ISP t s)) (numeral t) (numeral s)).
    { exists pad, []. split; [exact Hpad|]. split; [constructor|].
      split; [apply digits_p_numeral; assumption|]. split; [apply digits_p_numeral; assumption|].
      cbn [render_iline]. rewrite app_nil_r. reflexivity. }
    pose proof (C07_sp_accept c Hok _ _ _ Hsh (numeral_short _ HT t Ht Bt) (numeral_short _ HT s Hs Bs)) as Hd.
    rewrite !(numeral_horner _ HT) in Hd by assumption.
    apply try_of_dec; [right; left; reflexivity | exact Hd |].
    apply dec_ok_accepts in Hd. unfold accepts in *. cbn [re_of_kind] in Hd.
    intros k' [<-|[<-|[<-|[]]]] Hne; try congruence; cbn [re_of_kind].
    + destruct (matchb _ (re_note c) _) eqn:E; [exfalso; apply D1; split; first [assumption | reflexivity] | reflexivity].
    + destruct (matchb _ (re_tev c) _) eqn:E; [exfalso; apply D3; split; first [assumption | reflexivity] | reflexivity].
  - destruct Hwf as (Ht & Hw).
    assert (Hsh : tev_shape c (render_iline pad (ITev t w)) (numeral t) w).
    { exists pad, []. split; [exact Hpad|]. split; [constructor|].
      split; [apply digits_p_numeral; assumption|]. split; [exact Hw|].
      cbn [render_iline]. rewrite app_nil_r. reflexivity. }
    pose proof (C07_tev_accept c Hok _ _ _ Hsh (numeral_short _ HT t Ht Hb)) as Hd.
    rewrite !(numeral_horner _ HT) in Hd by assumption.
    apply try_of_dec; [right; right; left; reflexivity | exact Hd |].
    apply dec_ok_accepts in Hd. unfold accepts in *. cbn [re_of_kind] in Hd.
    intros k' [<-|[<-|[<-|[]]]] Hne; try congruence; cbn [re_of_kind].
    + destruct (matchb _ (re_note c) _) eqn:E; [exfalso; apply D2; split; first [assumption | reflexivity] | reflexivity].
    + destruct (matchb _ (re_sp c) _) eqn:E; [exfalso; apply D3; split; first [assumption | reflexivity] | reflexivity].
Qed.

Lemma render_instr : render_instr_stmt.
Proof.
  intros c pad ls Hok Hpad Hwf Hb Ho.
  apply (list_eqb_eq kind_eqb kind_eqb_eq) in Ho.
  apply (dispatch_map c (order_instr c) (render_iline pad)
           (fun l => Claimed (fst (data_iline l)) (snd (data_iline l)))).
  induction ls as [|l ls IH]; [constructor|].
  inversion Hwf; inversion Hb; subst. constructor; [|apply IH; assumption].
  apply try_iline; try assumption; destruct l; assumption.
Qed.

(** * The sync section *)
Definition sbound (l : sline) : Prop :=
  match l with
  | SBpm t n => t < 10 ^ 4000 /\ n < 10 ^ 4000
  | STs t u lo => t < 10 ^ 4000 /\ u < 10 ^ 4000 /\ match lo with Some x => x < 10 ^ 4000 | None => True end
  | SAnchor t us => t < 10 ^ 4000 /\ us < 10 ^ 4000
  end.

Lemma try_sline c pad l :
  cfg_ok_sync c = true -> Forall (fun ch => is_ws (tbl c) ch = true) pad ->
  wf_sline l -> sbound l -> order_sync c = [KBpm; KTs; KAnchor] ->
  try_kinds c (order_sync c) (render_sline pad l)
  = Ok (Claimed (fst (data_sline l)) (snd (data_sline l))).
Proof.
  intros Hok Hpad Hwf Hb Ho. rewrite Ho.
  destruct (cfg_ok_sync_inv c Hok) as (HT & _).
  pose proof (C08_disjoint c Hok (render_sline pad l)) as (D1 & D2 & D3).
  destruct l as [t n | t u lo | t us]; cbn [wf_sline sbound] in Hwf, Hb; cbn [data_sline fst snd].
  - destruct Hwf as (Ht & Hn). destruct Hb as [Bt Bn].
    assert (Hsh : bpm_shape c (render_sline pad (SBpm t n)) (numeral t) (numeral n)).
    { exists pad, []. split; [exact Hpad|]. split; [constructor|].
      split; [apply digits_p_numeral; assumption|]. split; [apply digits_p_numeral; assumption|].
      cbn [render_sline]. rewrite app_nil_r. reflexivity. }
    pose proof (C08_bpm_accept c Hok _ _ _ Hsh (numeral_short _ HT t Ht Bt)) as Hd.
    rewrite !(numeral_horner _ HT) in Hd by assumption.
    apply try_of_dec; [left; reflexivity | exact Hd |].
    apply dec_ok_accepts in Hd. unfold accepts in *. cbn [re_of_kind] in Hd.
    intros k' [<-|[<-|[<-|[]]]] Hne; try congruence; cbn [re_of_kind].
    + destruct (matchb _ (re_ts c) _) eqn:E; [exfalso; apply D1; split; first [assumption | reflexivity] | reflexivity].
    + destruct (matchb _ (re_anchor c) _) eqn:E; [exfalso; apply D2; split; first [assumption | reflexivity] | reflexivity].
  - destruct Hwf as (Ht & Hu & Hlo). destruct Hb as (Bt & Bu & Blo).
    assert (Hsh : ts_shape c (render_sline pad (STs t u lo)) (numeral t) (numeral u)
                    (match lo with Some x => Some (numeral x) | None => None end)).
    { exists pad, []. split; [exact Hpad|]. split; [constructor|].
      split; [apply digits_p_numeral; assumption|]. split; [apply digits_p_numeral; assumption|].
      destruct lo as [x|]; cbn [render_sline].
      - split; [apply digits_p_numeral; assumption|]. rewrite app_nil_r. reflexivity.
      - rewrite app_nil_r. reflexivity. }
    pose proof (C08_ts_accept c Hok _ _ _ _ Hsh (numeral_short _ HT t Ht Bt) (numeral_short _ HT u Hu Bu)) as Hd.
    assert (Hd' : dec c KTs (render_sline pad (STs t u lo)) = Ok (PTs t u lo)).
    { destruct lo as [x|].
      - rewrite Hd by (apply (numeral_short _ HT); assumption).
        rewrite !(numeral_horner _ HT) by assumption. reflexivity.
      - rewrite Hd by exact I. rewrite !(numeral_horner _ HT) by assumption. reflexivity. }
    clear Hd. rename Hd' into Hd.
    apply try_of_dec; [right; left; reflexivity | exact Hd |].
    apply dec_ok_accepts in Hd. unfold accepts in *. cbn [re_of_kind] in Hd.
    intros k' [<-|[<-|[<-|[]]]] Hne; try congruence; cbn [re_of_kind].
    + destruct (matchb _ (re_bpm c) _) eqn:E; [exfalso; apply D1; split; first [assumption | reflexivity] | reflexivity].
    + destruct (matchb _ (re_anchor c) _) eqn:E; [exfalso; apply D3; split; first [assumption | reflexivity] | reflexivity].
  - destruct Hwf as (Ht & Hu). destruct Hb as [Bt Bu].
    assert (Hsh : anchor_shape c (render_sline pad (SAnchor t us)) (numeral t) (numeral us)).
    { exists pad, []. split; [exact Hpad|]. split; [left; reflexivity|].
      split; [apply digits_p_numeral; assumption|]. split; [apply digits_p_numeral; assumption|].
      cbn [render_sline]. rewrite app_nil_r. reflexivity. }
    pose proof (C08_anchor_accept c Hok _ _ _ Hsh (numeral_short _ HT t Ht Bt) (numeral_short _ HT us Hu Bu)) as Hd.
    rewrite !(numeral_horner _ HT) in Hd by assumption.
    apply try_of_dec; [right; right; left; reflexivity | exact Hd |].
    apply dec_ok_accepts in Hd. unfold accepts in *. cbn [re_of_kind] in Hd.
    intros k' [<-|[<-|[<-|[]]]] Hne; try congruence; cbn [re_of_kind].
    + destruct (matchb _ (re_bpm c) _) eqn:E; [exfalso; apply D2; split; first [assumption | reflexivity] | reflexivity].
    + destruct (matchb _ (re_ts c) _) eqn:E; [exfalso; apply D3; split; first [assumption | reflexivity] | reflexivity].
Qed.

Lemma render_sync : render_sync_stmt.
Proof.
  intros c pad ls Hok Hpad Hwf Hb Ho.
  apply (list_eqb_eq kind_eqb kind_eqb_eq) in Ho.
  apply (dispatch_map c (order_sync c) (render_sline pad)
           (fun l => Claimed (fst (data_sline l)) (snd (data_sline l)))).
  induction ls as [|l ls IH]; [constructor|].
  inversion Hwf; inversion Hb; subst. constructor; [|apply IH; assumption].
  apply try_sline; try assumption; destruct l; assumption.
Qed.

(** * The events section *)
Lemma try_eline c pad l :
  cfg_ok_events c = true -> Forall (fun ch => is_ws (tbl c) ch = true) pad ->
  wf_eline l -> (match l with ELyric t _ | ESection t _ | EText t _ => t < 10 ^ 4000 end) ->
  try_kinds c (order_events c) (render_eline pad l)
  = Ok (Claimed (fst (data_eline l)) (snd (data_eline l))).
Proof.
  intros Hok Hpad Hwf Hb.
  destruct (cfg_ok_events_inv c Hok) as (HT & _).
  destruct l as [t v | t v | t v]; cbn [wf_eline] in Hwf; cbn [data_eline fst snd].
  - destruct Hwf as (Ht & Hv).
    assert (Hsh : quoted_shape c "lyric " (render_eline pad (ELyric t v)) (numeral t) v).
    { exists pad, []. split; [exact Hpad|]. split; [constructor|].
      split; [apply digits_p_numeral; assumption|]. reflexivity. }
    rewrite (C09_lyric c Hok _ _ _ Hsh Hv (numeral_short _ HT t Ht Hb)).
    rewrite (numeral_horner _ HT) by assumption. reflexivity.
  - destruct Hwf as (Ht & Hv).
    assert (Hsh : quoted_shape c "section " (render_eline pad (ESection t v)) (numeral t) v).
    { exists pad, []. split; [exact Hpad|]. split; [constructor|].
      split; [apply digits_p_numeral; assumption|]. reflexivity. }
    rewrite (C09_section c Hok _ _ _ Hsh Hv (numeral_short _ HT t Ht Hb)).
    rewrite (numeral_horner _ HT) by assumption. reflexivity.
  - destruct Hwf as (Ht & Hv & Hq & Hl & Hs).
    assert (Hsh : quoted_shape c "" (render_eline pad (EText t v)) (numeral t) v).
    { exists pad, []. split; [exact Hpad|]. split; [constructor|].
      split; [apply digits_p_numeral; assumption|]. reflexivity. }
    rewrite (C09_text c Hok _ _ _ Hsh Hq Hv Hl Hs (numeral_short _ HT t Ht Hb)).
    rewrite (numeral_horner _ HT) by assumption. reflexivity.
Qed.

Lemma render_events : render_events_stmt.
Proof.
  intros c pad ls Hok Hpad Hwf Hb.
  apply (dispatch_map c (order_events c) (render_eline pad)
           (fun l => Claimed (fst (data_eline l)) (snd (data_eline l)))).
  induction ls as [|l ls IH]; [constructor|].
  inversion Hwf; inversion Hb; subst. constructor; [|apply IH; assumption].
  apply try_eline; assumption.
Qed.

(** * What the note builder receives *)
Lemma render_note_data : render_note_data_stmt.
Proof.
  intros c pad ls outs _ ->. unfold data_of, warnings_of, notes_of.
  induction ls as [|l ls [IH1 IH2]]; [split; reflexivity|].
  cbn [map flat_map]. rewrite map_app, IH1, IH2.
  destruct l; cbn [data_iline fst snd kind_eqb map app ndata_of]; split; reflexivity.
Qed.

(** * A whole rendered file *)
Lemma lines_of_no_breaks c secs :
  cfg_ok_chart c = true ->
  Forall (fun s => no_breaks (tbl c) (fst s) /\ Forall (no_breaks (tbl c)) (snd s)) secs ->
  Forall (no_breaks (tbl c)) (lines_of secs).
Proof.
  intros Hc Hs. destruct (cfg_ok_chart_inv c Hc) as (_ & _ & _ & _ & _ & _ & _ & _ & B91 & B93 & B123 & B125).
  apply Forall_forall. intros l Hin. unfold lines_of in Hin.
  apply in_flat_map in Hin as (s & Hsin & Hl).
  rewrite Forall_forall in Hs. destruct (Hs s Hsin) as [Htag Hbody].
  unfold sec_lines in Hl. destruct Hl as [<- | [<- | Hl]].
  - unfold header_line, no_breaks. apply Forall_app. split; [constructor; [exact B91 | constructor]|].
    apply Forall_app. split; [exact Htag | constructor; [exact B93 | constructor]].
  - unfold OPEN_BRACE, no_breaks. constructor; [exact B123 | constructor].
  - apply in_app_or in Hl as [Hl | [<- | []]].
    + rewrite Forall_forall in Hbody. apply Hbody; exact Hl.
    + unfold CLOSE_BRACE, no_breaks. constructor; [exact B125 | constructor].
Qed.

Lemma render_file : render_file_stmt.
Proof.
  intros c secs nl want Hc Hwf Hnl Hnb.
  destruct (cfg_ok_chart_inv c Hc) as (_ & _ & _ & _ & _ & _ & HLF & HCR & _).
  rewrite from_file_secs.
  rewrite (C06_split (tbl c) (lines_of secs) nl HLF HCR Hnl (lines_of_no_breaks c secs Hc Hnb)).
  rewrite (C06_frame c secs Hc Hwf). reflexivity.
Qed.
