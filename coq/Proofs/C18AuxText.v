(** Proofs/C18AuxText.v — pure list lemmas for C18: contiguous sublists ([infix]), digit runs
    versus [max_digit_run], lines of [splitlines] are infixes of the text, and the size of
    [horner]/[py_int] on short digit strings. *)
From CP Require Import Base.Prelude Base.Str Base.Regex Base.Cfg Model.Lines Spec.C18 Proofs.RegexShapes.
From Coq Require Import Lia.
Open Scope Z_scope.

Definition infix {A} (s t : list A) : Prop := exists a b, t = a ++ s ++ b.

(** * (1) infix *)
Section Infix.
Context {A : Type}.
Implicit Types s t l : list A.

Lemma infix_refl s : infix s s.
Proof. exists [], []. cbn [app]. rewrite app_nil_r. reflexivity. Qed.

Lemma infix_trans s t u : infix s t -> infix t u -> infix s u.
Proof.
  intros (a & b & ->) (a' & b' & ->). exists (a' ++ a), (b ++ b').
  rewrite <- !app_assoc. reflexivity.
Qed.

Lemma infix_app_l s b : infix s (s ++ b).
Proof. exists [], b. reflexivity. Qed.

Lemma infix_app_r s a : infix s (a ++ s).
Proof. exists a, []. rewrite app_nil_r. reflexivity. Qed.

Lemma infix_cons s t x : infix s t -> infix s (x :: t).
Proof. intros (a & b & ->). exists (x :: a), b. reflexivity. Qed.

Lemma infix_skipn n l : infix (skipn n l) l.
Proof. rewrite <- (firstn_skipn n l) at 2. apply infix_app_r. Qed.

Lemma infix_firstn n l : infix (firstn n l) l.
Proof. rewrite <- (firstn_skipn n l) at 2. apply infix_app_l. Qed.

Lemma infix_tl l : infix (tl l) l.
Proof. destruct l as [|x l]; cbn [tl]; [apply infix_refl | apply infix_cons, infix_refl]. Qed.

Lemma infix_length s t : infix s t -> (length s <= length t)%nat.
Proof. intros (a & b & ->). rewrite !app_length. lia. Qed.

Lemma infix_nil t : infix [] t.
Proof. exists [], t. reflexivity. Qed.

Variable p : A -> bool.

Lemma span_fst_snd l : l = fst (span p l) ++ snd (span p l).
Proof.
  destruct (span p l) as [a b] eqn:E. apply span_spec in E. cbn [fst snd]. tauto.
Qed.

Lemma span_fst_all l : Forall (fun x => p x = true) (fst (span p l)).
Proof.
  destruct (span p l) as [a b] eqn:E. apply span_spec in E. cbn [fst]. tauto.
Qed.

Lemma infix_span_fst l : infix (fst (span p l)) l.
Proof. rewrite (span_fst_snd l) at 2. apply infix_app_l. Qed.

Lemma infix_span_snd l : infix (snd (span p l)) l.
Proof. rewrite (span_fst_snd l) at 2. apply infix_app_r. Qed.

Lemma infix_dropwhile l : infix (dropwhile p l) l.
Proof. apply infix_span_snd. Qed.

Lemma infix_takewhile l : infix (takewhile p l) l.
Proof. apply infix_span_fst. Qed.

End Infix.

(** * (2) digit runs are bounded by [max_digit_run] *)
Section DigitRun.
Variable T : tables.
Notation dig := (fun ch => is_digit T ch = true).

Lemma max_digit_run_ge t : forall cur best,
  (Nat.max cur best <= max_digit_run T t cur best)%nat.
Proof.
  induction t as [|x t IH]; intros cur best; cbn [max_digit_run]; [lia|].
  destruct (is_digit T x).
  - specialize (IH (S cur) best). lia.
  - specialize (IH O (Nat.max cur best)). lia.
Qed.

Lemma max_digit_run_mono t : forall cur best cur' best',
  (cur <= cur')%nat -> (best <= best')%nat ->
  (max_digit_run T t cur best <= max_digit_run T t cur' best')%nat.
Proof.
  induction t as [|x t IH]; intros cur best cur' best' Hc Hb; cbn [max_digit_run]; [lia|].
  destruct (is_digit T x); apply IH; lia.
Qed.

Lemma max_digit_run_front s b : Forall dig s -> forall cur best,
  (cur + length s <= max_digit_run T (s ++ b) cur best)%nat.
Proof.
  induction 1 as [|x s Hx Hs IH]; intros cur best; cbn [app length].
  - pose proof (max_digit_run_ge b cur best). lia.
  - cbn [max_digit_run]. rewrite Hx. specialize (IH (S cur) best). lia.
Qed.

Lemma max_digit_run_skip a t : forall cur best,
  (max_digit_run T t 0 0 <= max_digit_run T (a ++ t) cur best)%nat.
Proof.
  induction a as [|x a IH]; intros cur best; cbn [app].
  - apply max_digit_run_mono; lia.
  - cbn [max_digit_run]. destruct (is_digit T x); apply IH.
Qed.

Lemma digit_run_bound text s :
  infix s text -> Forall dig s -> (length s <= max_digit_run T text 0 0)%nat.
Proof.
  intros (a & b & ->) Hs.
  pose proof (max_digit_run_skip a (s ++ b) 0 0)%nat.
  pose proof (max_digit_run_front s b Hs 0 0)%nat. lia.
Qed.

End DigitRun.

(** * (3) lines are infixes of the text *)
Lemma splitlines_aux_infix T n : forall s cur l,
  (length s <= n)%nat -> In l (splitlines_aux T s cur) -> infix l (rev cur ++ s).
Proof.
  induction n as [|n IH]; intros s cur l Hn Hin.
  - destruct s; [|cbn [length] in Hn; lia]. cbn [splitlines_aux] in Hin.
    destruct cur; [contradiction|]. destruct Hin as [<-|[]]. apply infix_app_l.
  - destruct s as [|c s'].
    + cbn [splitlines_aux] in Hin.
      destruct cur; [contradiction|]. destruct Hin as [<-|[]]. apply infix_app_l.
    + cbn [length] in Hn. cbn [splitlines_aux] in Hin.
      destruct (is_break T c).
      * destruct s' as [|c' s''].
        -- destruct Hin as [<-|[]]. apply infix_app_l.
        -- cbn [length] in Hn.
           destruct (N.eqb c CR && N.eqb c' LF); destruct Hin as [<-|Hin];
             try apply infix_app_l.
           ++ apply IH in Hin; [|lia]. cbn [rev app] in Hin.
              eapply infix_trans; [exact Hin|].
              exists (rev cur ++ [c; c']), []. rewrite app_nil_r, <- app_assoc. reflexivity.
           ++ apply IH in Hin; [|cbn [length]; lia]. cbn [rev app] in Hin.
              eapply infix_trans; [exact Hin|].
              exists (rev cur ++ [c]), []. rewrite app_nil_r, <- app_assoc. reflexivity.
      * apply IH in Hin; [|lia]. cbn [rev] in Hin. rewrite <- app_assoc in Hin. exact Hin.
Qed.

Lemma splitlines_infix T text l : In l (splitlines T text) -> infix l text.
Proof.
  intro H. apply (splitlines_aux_infix T (length text) text [] l (le_n _)) in H. exact H.
Qed.

(** * (4) size of [horner] / [py_int] *)
Lemma horner_lt T s : horner T s 0 < 10 ^ Z.of_nat (length s).
Proof.
  induction s as [|x s IH].
  - cbn [horner length]. change (10 ^ Z.of_nat 0) with 1. lia.
  - cbn [horner]. rewrite horner_acc. cbn [length].
    rewrite Nat2Z.inj_succ, Z.pow_succ_r by lia.
    assert (0 < 10 ^ Z.of_nat (length s)) by (apply Z.pow_pos_nonneg; lia).
    destruct (digit_val T x) as [v|] eqn:E.
    + apply digit_val_range in E. nia.
    + nia.
Qed.

Lemma horner_ge0 T s : 0 <= horner T s 0.
Proof. apply horner_nonneg. lia. Qed.

Lemma horner_bounds T s : 0 <= horner T s 0 < 10 ^ Z.of_nat (length s).
Proof. split; [apply horner_ge0 | apply horner_lt]. Qed.

Lemma py_int_small T s v : (length s <= 8)%nat -> py_int T s = Ok v -> 0 <= v < 100000000.
Proof.
  intros Hlen H. unfold py_int in H.
  destruct (Nat.ltb max_str_digits (length s)); [discriminate|].
  injection H as <-. pose proof (horner_bounds T s) as [H0 H1].
  split; [exact H0|].
  eapply Z.lt_le_trans; [exact H1|].
  change 100000000 with (10 ^ 8).
  apply Z.pow_le_mono_r; lia.
Qed.

(** * (5) bounded texts: every line has only short digit runs *)
Definition line_bounded T (l : str) : Prop :=
  forall s, infix s l -> Forall (fun ch => is_digit T ch = true) s -> (length s <= 8)%nat.

Lemma bounded_line_bounded T text : bounded T text = true -> line_bounded T text.
Proof.
  intros Hb s Hi Hs. unfold bounded in Hb. apply Nat.leb_le in Hb.
  pose proof (digit_run_bound T text s Hi Hs). lia.
Qed.

Lemma line_bounded_infix T l l' : line_bounded T l -> infix l' l -> line_bounded T l'.
Proof. intros Hl Hi s Hs. apply Hl. eapply infix_trans; eassumption. Qed.

Lemma bounded_lines T text : bounded T text = true -> Forall (line_bounded T) (splitlines T text).
Proof.
  intro Hb. apply Forall_forall. intros l Hin.
  eapply line_bounded_infix; [apply bounded_line_bounded; exact Hb|].
  apply (splitlines_infix T). exact Hin.
Qed.

Lemma lazy_prefix_infix okc min rem u v r :
  lazy_prefix okc min rem u = Some (v, r) -> infix v u.
Proof.
  intro H. apply lazy_prefix_sound in H. destruct H as (-> & _). apply infix_app_l.
Qed.
