(** Proofs/ChartInv.v — basic invariants of the chart-level model (Model/Chart.v, Spec/ChartSpec.v):
    string-keyed association lists ([assoc], [dict_set]), the nested track mapping
    ([tracks_set], [lookup_tracks]), the structure of [route] (append, logs, accumulator,
    inversion of a successful run), the part of [from_secs] that does not depend on the
    selection ([fixed_part]) and the unfolding of [cfg_ok_chart]. *)
From CP Require Import Base.Prelude Base.Str Base.Regex Base.Cfg Base.Float64 Base.Timedelta
  Model.Lines Model.Sync Model.Instrument Model.Chart Spec.RefRegex Spec.ChartSpec.
From Coq Require Import Permutation Lia.
Open Scope Z_scope.

(** * [from_file] is [partition] followed by [from_secs] *)
Lemma from_file_secs : from_file_secs_stmt.
Proof. intros c text want. reflexivity. Qed.

(** * String equality *)
Lemma str_eqb_refl a : str_eqb a a = true.
Proof. apply str_eqb_eq. reflexivity. Qed.

Lemma str_eqb_neq a b : str_eqb a b = false <-> a <> b.
Proof.
  split.
  - intros H E. apply str_eqb_eq in E. congruence.
  - intro H. destruct (str_eqb a b) eqn:E; [|reflexivity]. apply str_eqb_eq in E. contradiction.
Qed.

Lemma str_eqb_sym a b : str_eqb a b = str_eqb b a.
Proof.
  destruct (str_eqb a b) eqn:E; symmetry.
  - apply str_eqb_eq in E. subst. apply str_eqb_refl.
  - apply str_eqb_neq. apply str_eqb_neq in E. congruence.
Qed.

Lemma str_eq_dec (a b : str) : {a = b} + {a <> b}.
Proof.
  destruct (str_eqb a b) eqn:E; [left; apply str_eqb_eq; exact E | right; apply str_eqb_neq; exact E].
Qed.

Lemma mem_str_In k l : mem_str k l = true <-> In k l.
Proof.
  unfold mem_str. rewrite existsb_exists. split.
  - intros (x & Hin & E). apply str_eqb_eq in E. subst. exact Hin.
  - intro H. exists k. split; [exact H | apply str_eqb_refl].
Qed.

Lemma mem_str_false k l : mem_str k l = false <-> ~ In k l.
Proof.
  destruct (mem_str k l) eqn:E.
  - split; [discriminate | intro H; exfalso; apply H; apply mem_str_In; exact E].
  - split; [intros _ H; apply mem_str_In in H; congruence | reflexivity].
Qed.

Lemma nodup_strs_NoDup l : nodup_strs l = true <-> NoDup l.
Proof.
  induction l as [|x l IH]; cbn [nodup_strs].
  - split; [constructor | reflexivity].
  - rewrite andb_true_iff, negb_true_iff, IH. change (existsb (str_eqb x) l) with (mem_str x l).
    rewrite mem_str_false. split.
    + intros [H1 H2]; constructor; assumption.
    + intro H; inversion H; subst; auto.
Qed.

(** * firstn / skipn on an appended list *)
Lemma skipn_length_app {A} (a b : list A) : skipn (length a) (a ++ b) = b.
Proof. induction a as [|x a IH]; [reflexivity | exact IH]. Qed.

Lemma firstn_length_app {A} (a b : list A) : firstn (length a) (a ++ b) = a.
Proof. induction a as [|x a IH]; cbn [length app firstn]; [destruct b; reflexivity | rewrite IH; reflexivity]. Qed.

(** * Association lists *)
Section Assoc.
Context {A : Type}.
Implicit Types (l d : list (str * A)).

Lemma assoc_cons k k' (v : A) l :
  assoc k ((k', v) :: l) = if str_eqb k k' then Some v else assoc k l.
Proof. reflexivity. Qed.

Lemma assoc_app k l1 l2 :
  assoc k (l1 ++ l2) = match assoc k l1 with Some v => Some v | None => assoc k l2 end.
Proof.
  induction l1 as [|[k' v] l1 IH]; cbn [app assoc]; [reflexivity|].
  destruct (str_eqb k k'); [reflexivity | exact IH].
Qed.

Lemma assoc_In k (v : A) l : assoc k l = Some v -> In (k, v) l.
Proof.
  induction l as [|[k' v'] l IH]; cbn [assoc]; [discriminate|].
  destruct (str_eqb k k') eqn:E.
  - apply str_eqb_eq in E. intro H; inversion H; subst. left; reflexivity.
  - intro H. right. apply IH; exact H.
Qed.

Lemma assoc_None k l : assoc k l = None <-> ~ In k (map fst l).
Proof.
  induction l as [|[k' v'] l IH]; cbn [assoc map fst In].
  - split; [intros _ [] | reflexivity].
  - destruct (str_eqb k k') eqn:E.
    + apply str_eqb_eq in E. subst. split; [discriminate | intro H; exfalso; apply H; left; reflexivity].
    + apply str_eqb_neq in E. rewrite IH. split.
      * intros H [H1 | H1]; [congruence | contradiction].
      * intros H H1. apply H. right; exact H1.
Qed.

Lemma assoc_Some_key k (v : A) l : assoc k l = Some v -> In k (map fst l).
Proof. intro H. apply assoc_In in H. apply (in_map fst) in H. exact H. Qed.

Lemma In_assoc_nodup k (v : A) l : NoDup (map fst l) -> In (k, v) l -> assoc k l = Some v.
Proof.
  induction l as [|[k' v'] l IH]; cbn [map fst assoc]; intros Hnd Hin; [destruct Hin|].
  inversion Hnd; subst. destruct Hin as [E | Hin].
  - inversion E; subst. rewrite str_eqb_refl. reflexivity.
  - destruct (str_eqb k k') eqn:E.
    + apply str_eqb_eq in E. subst. exfalso. apply H1. apply (in_map fst) in Hin. exact Hin.
    + apply IH; assumption.
Qed.

(** With distinct keys [assoc] characterises membership. *)
Lemma assoc_iff_In k (v : A) l : NoDup (map fst l) -> (assoc k l = Some v <-> In (k, v) l).
Proof. intro H. split; [apply assoc_In | apply In_assoc_nodup; exact H]. Qed.

Lemma assoc_perm k l l' : NoDup (map fst l) -> Permutation l l' -> assoc k l = assoc k l'.
Proof.
  intros Hnd Hp.
  assert (Hnd' : NoDup (map fst l')).
  { eapply Permutation_NoDup; [apply Permutation_map; exact Hp | exact Hnd]. }
  destruct (assoc k l) as [v|] eqn:E.
  - symmetry. apply In_assoc_nodup; [exact Hnd'|]. eapply Permutation_in; [exact Hp|].
    apply assoc_In; exact E.
  - symmetry. apply assoc_None. apply assoc_None in E. intro H. apply E.
    eapply Permutation_in; [apply Permutation_sym, Permutation_map; exact Hp | exact H].
Qed.

Lemma assoc_rev_nodup k l : NoDup (map fst l) -> assoc k (rev l) = assoc k l.
Proof. intro H. symmetry. apply assoc_perm; [exact H | apply Permutation_rev]. Qed.

(** Python dict assignment. *)
Lemma assoc_dict_set k k' (v : A) d :
  assoc k (dict_set k' v d) = if str_eqb k k' then Some v else assoc k d.
Proof.
  induction d as [|[k0 v0] d IH]; cbn [dict_set assoc].
  - reflexivity.
  - destruct (str_eqb k' k0) eqn:E0; cbn [assoc].
    + apply str_eqb_eq in E0. subst k0. destruct (str_eqb k k'); reflexivity.
    + destruct (str_eqb k k0) eqn:E1.
      * apply str_eqb_eq in E1. subst k0. rewrite str_eqb_sym, E0. reflexivity.
      * exact IH.
Qed.

Lemma assoc_dict_set_same k (v : A) d : assoc k (dict_set k v d) = Some v.
Proof. rewrite assoc_dict_set, str_eqb_refl. reflexivity. Qed.

Lemma assoc_dict_set_other k k' (v : A) d : k <> k' -> assoc k (dict_set k' v d) = assoc k d.
Proof. intro H. rewrite assoc_dict_set. apply str_eqb_neq in H. rewrite H. reflexivity. Qed.

Lemma dict_set_not_nil k (v : A) d : dict_set k v d <> [].
Proof. destruct d as [|[k0 v0] d]; cbn [dict_set]; [discriminate|]. destruct (str_eqb k k0); discriminate. Qed.

Lemma dict_set_fresh k (v : A) d : ~ In k (map fst d) -> dict_set k v d = d ++ [(k, v)].
Proof.
  induction d as [|[k0 v0] d IH]; cbn [dict_set map fst In app]; intro H; [reflexivity|].
  destruct (str_eqb k k0) eqn:E.
  - apply str_eqb_eq in E. subst. exfalso. apply H. left; reflexivity.
  - rewrite IH; [reflexivity|]. intro H1. apply H. right; exact H1.
Qed.

Lemma dict_set_keys k (v : A) d x : In x (map fst (dict_set k v d)) <-> x = k \/ In x (map fst d).
Proof.
  induction d as [|[k0 v0] d IH]; cbn [dict_set map fst In].
  - split; [intros [H|[]]; left; congruence | intros [H|[]]; left; congruence].
  - destruct (str_eqb k k0) eqn:E; cbn [map fst In].
    + apply str_eqb_eq in E. subst k0. split.
      * intros [H|H]; [left; congruence | right; right; exact H].
      * intros [H|[H|H]]; [left; congruence | left; exact H | right; exact H].
    + rewrite IH. split.
      * intros [H|[H|H]]; auto.
      * intros [H|[H|H]]; auto.
Qed.

(** Folding [dict_set] over sections with pairwise distinct fresh keys just appends them. *)
Lemma fold_dict_set_nodup (secs : list (str * A)) d :
  NoDup (map fst (d ++ secs)) ->
  fold_left (fun d s => dict_set (fst s) (snd s) d) secs d = d ++ secs.
Proof.
  revert d. induction secs as [|[k v] secs IH]; intros d Hnd; cbn [fold_left fst snd].
  - rewrite app_nil_r. reflexivity.
  - assert (Hk : ~ In k (map fst d)).
    { rewrite map_app in Hnd. cbn [map fst] in Hnd. apply NoDup_remove_2 in Hnd.
      intro H. apply Hnd. apply in_or_app. left; exact H. }
    rewrite dict_set_fresh by exact Hk. rewrite IH.
    + rewrite <- app_assoc. reflexivity.
    + rewrite <- app_assoc. exact Hnd.
Qed.

(** A non-empty association list has a key that is found. *)
Lemma assoc_nonempty l : l <> [] -> exists k v, assoc k l = Some v.
Proof.
  destruct l as [|[k v] l]; [congruence|]. intros _. exists k, v. cbn [assoc].
  rewrite str_eqb_refl. reflexivity.
Qed.

(** Removing / replacing one binding does not change the look-up of any other key. *)
Lemma assoc_app_cons_other k k' (v : A) l1 l2 :
  k <> k' -> assoc k (l1 ++ (k', v) :: l2) = assoc k (l1 ++ l2).
Proof.
  intro H. rewrite !assoc_app. cbn [assoc]. apply str_eqb_neq in H. rewrite H. reflexivity.
Qed.

Lemma assoc_app_cons_is_some k k' (v v' : A) l1 l2 :
  match assoc k (l1 ++ (k', v) :: l2) with Some _ => true | None => false end =
  match assoc k (l1 ++ (k', v') :: l2) with Some _ => true | None => false end.
Proof.
  rewrite !assoc_app. cbn [assoc]. destruct (assoc k l1); [reflexivity|].
  destruct (str_eqb k k'); reflexivity.
Qed.

End Assoc.

(** * The nested track mapping *)
Definition tracks := list (str * list (str * itrack)).

Lemma lookup_tracks_nil i d : lookup_tracks [] i d = None.
Proof. reflexivity. Qed.

Lemma lookup_tracks_set i d tr (m : tracks) i' d' :
  lookup_tracks (tracks_set i d tr m) i' d' =
  if str_eqb i' i && str_eqb d' d then Some tr else lookup_tracks m i' d'.
Proof.
  unfold lookup_tracks, tracks_set. rewrite assoc_dict_set.
  destruct (str_eqb i' i) eqn:Ei; cbn [andb]; [|reflexivity].
  apply str_eqb_eq in Ei. subst i'. rewrite assoc_dict_set.
  destruct (str_eqb d' d); [reflexivity|].
  destruct (assoc i m); reflexivity.
Qed.

Lemma lookup_tracks_set_same i d tr (m : tracks) : lookup_tracks (tracks_set i d tr m) i d = Some tr.
Proof. rewrite lookup_tracks_set, !str_eqb_refl. reflexivity. Qed.

Lemma lookup_tracks_set_other i d tr (m : tracks) i' d' :
  (i', d') <> (i, d) -> lookup_tracks (tracks_set i d tr m) i' d' = lookup_tracks m i' d'.
Proof.
  intro H. rewrite lookup_tracks_set.
  destruct (str_eqb i' i) eqn:Ei; cbn [andb]; [|reflexivity].
  destruct (str_eqb d' d) eqn:Ed; [|reflexivity].
  apply str_eqb_eq in Ei, Ed. subst. contradiction.
Qed.

Definition inner_nonempty (m : tracks) : Prop := forall i inner, assoc i m = Some inner -> inner <> [].

Lemma inner_nonempty_nil : inner_nonempty [].
Proof. intros i inner H. discriminate. Qed.

Lemma inner_nonempty_set i d tr m : inner_nonempty m -> inner_nonempty (tracks_set i d tr m).
Proof.
  intros H i' inner. unfold tracks_set. rewrite assoc_dict_set.
  destruct (str_eqb i' i).
  - intro E; inversion E. apply dict_set_not_nil.
  - apply H.
Qed.

(** With no empty inner dict, an instrument key is present iff some difficulty is found under it. *)
Lemma assoc_tracks_Some_iff (m : tracks) i :
  inner_nonempty m -> (assoc i m <> None <-> exists d tr, lookup_tracks m i d = Some tr).
Proof.
  intro Hne. unfold lookup_tracks. split.
  - destruct (assoc i m) as [inner|] eqn:E; [|congruence]. intros _.
    destruct (assoc_nonempty inner (Hne i inner E)) as (d & tr & H). eauto.
  - intros (d & tr & H). destruct (assoc i m); [discriminate | discriminate].
Qed.

Lemma option_eq_of_iff {A} (o1 o2 : option A) (P : A -> Prop) :
  (forall x, o1 = Some x <-> P x) -> (forall x, o2 = Some x <-> P x) -> o1 = o2.
Proof.
  intros H1 H2. destruct o1 as [x|].
  - symmetry. apply H2, H1. reflexivity.
  - destruct o2 as [y|]; [|reflexivity]. apply (H1 y), (H2 y). reflexivity.
Qed.

Lemma tracks_equiv_of_lookup (a b : tracks) :
  inner_nonempty a -> inner_nonempty b ->
  (forall i d, lookup_tracks a i d = lookup_tracks b i d) -> tracks_equiv a b.
Proof.
  intros Ha Hb H. split; [exact H|]. intro i.
  pose proof (assoc_tracks_Some_iff a i Ha) as Ia. pose proof (assoc_tracks_Some_iff b i Hb) as Ib.
  assert (E : assoc i a <> None <-> assoc i b <> None).
  { rewrite Ia, Ib. split; intros (d & tr & Hl); exists d, tr; [rewrite <- H | rewrite H]; exact Hl. }
  destruct (assoc i a), (assoc i b); split; intro X; try reflexivity; try discriminate; exfalso.
  - apply (proj1 E); [discriminate | reflexivity].
  - apply (proj2 E); [discriminate | reflexivity].
Qed.

(** * Section headers *)
Lemma header_pairs_In c tag i d :
  In (tag, (i, d)) (header_pairs c) <-> tag = d ++ i /\ In i (instr_values c) /\ In d (diff_values c).
Proof.
  unfold header_pairs. rewrite in_flat_map. split.
  - intros (i0 & Hi & H). apply in_map_iff in H as (d0 & E & Hd). inversion E; subst. auto.
  - intros (-> & Hi & Hd). exists i. split; [exact Hi|]. apply in_map_iff. exists d. auto.
Qed.

(** A recognised header is the concatenation of its difficulty and instrument values. *)
Lemma header_lookup_tag c tag i d :
  header_lookup c tag = Some (i, d) -> tag = d ++ i /\ In i (instr_values c) /\ In d (diff_values c).
Proof.
  unfold header_lookup. intro H. apply assoc_In in H. apply in_rev in H.
  apply header_pairs_In; exact H.
Qed.

Lemma header_lookup_key c tag p : header_lookup c tag = Some p -> In tag (map fst (header_pairs c)).
Proof.
  unfold header_lookup. intro H. apply assoc_In in H. apply in_rev in H.
  apply (in_map fst) in H. exact H.
Qed.

(** Equal (instrument, difficulty) pairs come from equal headers. *)
Lemma header_lookup_inj c tag1 tag2 p :
  header_lookup c tag1 = Some p -> header_lookup c tag2 = Some p -> tag1 = tag2.
Proof.
  destruct p as [i d]. intros H1 H2.
  apply header_lookup_tag in H1 as (-> & _). apply header_lookup_tag in H2 as (-> & _). reflexivity.
Qed.

Lemma header_lookup_nodup c i d :
  NoDup (map fst (header_pairs c)) -> In i (instr_values c) -> In d (diff_values c) ->
  header_lookup c (d ++ i) = Some (i, d).
Proof.
  intros Hnd Hi Hd. unfold header_lookup. rewrite assoc_rev_nodup by exact Hnd.
  apply In_assoc_nodup; [exact Hnd|]. apply header_pairs_In. auto.
Qed.

(** * [cfg_ok_chart] unpacked *)
Lemma cfg_ok_chart_inv c :
  cfg_ok_chart c = true ->
  re_header c = ref_header /\
  NoDup (map fst (header_pairs c)) /\
  (length (instr_values c) = 10%nat /\ length (diff_values c) = 4%nat /\
   NoDup (instr_values c) /\ NoDup (diff_values c)) /\
  (forall t, In t (required_tags c) -> ~ In t (map fst (header_pairs c))) /\
  required_tags c = [tag_song c; tag_sync c; tag_events c] /\
  NoDup (required_tags c) /\
  is_break (tbl c) LF = true /\ is_break (tbl c) CR = true /\
  is_break (tbl c) 91%N = false /\ is_break (tbl c) 93%N = false /\
  is_break (tbl c) 123%N = false /\ is_break (tbl c) 125%N = false.
Proof.
  unfold cfg_ok_chart, chart_items. cbn [forallb snd].
  rewrite !andb_true_iff, re_eqb_eq, !nodup_strs_NoDup, !Nat.eqb_eq, (list_eqb_eq str_eqb str_eqb_eq),
    !negb_true_iff.
  intros (H1 & H2 & (((H3 & H4) & H5) & H6) & H7 & (H8 & H9) & ((H10 & H11) & (H12 & H13 & H14 & H15 & _)) & _).
  repeat split; try assumption.
  intros t Ht. rewrite forallb_forall in H7. specialize (H7 t Ht). apply negb_true_iff in H7.
  apply mem_str_false. exact H7.
Qed.

Lemma cfg_ok_chart_header c : cfg_ok_chart c = true -> re_header c = ref_header.
Proof. intro H. apply cfg_ok_chart_inv in H. tauto. Qed.

Lemma cfg_ok_chart_required c :
  cfg_ok_chart c = true -> required_tags c = [tag_song c; tag_sync c; tag_events c].
Proof. intro H. apply cfg_ok_chart_inv in H. tauto. Qed.

(** A recognised instrument header is none of the three required tags. *)
Lemma cfg_ok_chart_header_not_required c tag p :
  cfg_ok_chart c = true -> header_lookup c tag = Some p ->
  ~ In tag (required_tags c) /\ tag <> tag_song c /\ tag <> tag_sync c /\ tag <> tag_events c.
Proof.
  intros Hc Hh. pose proof (cfg_ok_chart_inv c Hc) as (_ & _ & _ & Hr & Hreq & _).
  assert (Hn : ~ In tag (required_tags c)).
  { intro Hin. apply (Hr tag Hin). eapply header_lookup_key; exact Hh. }
  split; [exact Hn|]. rewrite Hreq in Hn. cbn [In] in Hn.
  repeat split; intro E; apply Hn; auto.
Qed.

(** * Routing *)
Section Route.
Variable c : cfg.
Variable B : bpm_events.
Variable want : option (list (str * str)).

(** What one section does to the accumulator and to the log, when it succeeds. *)
Definition sec_logs (s : sec) : list log :=
  match header_lookup c (fst s) with
  | Some (i, d) =>
      if wanted want (i, d) then
        match itrack_from_lines c i d (snd s) B with
        | Ok (_, ws) => map LUnparsable ws
        | Err _ => []
        end
      else []
  | None => if mem_str (fst s) (required_tags c) then [] else [LUnhandled (fst s)]
  end.

Lemma route_nil acc logs : route c B want [] acc logs = Ok (acc, logs).
Proof. reflexivity. Qed.

Lemma route_cons tag body secs acc logs :
  route c B want ((tag, body) :: secs) acc logs =
  match header_lookup c tag with
  | Some (i, d) =>
      if wanted want (i, d) then
        let* (tr, ws) := itrack_from_lines c i d body B in
        route c B want secs (tracks_set i d tr acc) (logs ++ map LUnparsable ws)
      else route c B want secs acc logs
  | None =>
      if mem_str tag (required_tags c) then route c B want secs acc logs
      else route c B want secs acc (logs ++ [LUnhandled tag])
  end.
Proof. reflexivity. Qed.

Lemma route_app s1 s2 acc logs :
  route c B want (s1 ++ s2) acc logs =
  (let* (a, l) := route c B want s1 acc logs in route c B want s2 a l).
Proof.
  revert acc logs. induction s1 as [|[tag body] s1 IH]; intros acc logs.
  - reflexivity.
  - cbn [app]. rewrite !route_cons.
    destruct (header_lookup c tag) as [[i d]|].
    + destruct (wanted want (i, d)); [|apply IH].
      destruct (itrack_from_lines c i d body B) as [[tr ws]|e]; cbn [bind]; [apply IH | reflexivity].
    + destruct (mem_str tag (required_tags c)); apply IH.
Qed.

(** The incoming log is only ever extended: it can be factored out. *)
Lemma route_logs_prefix secs acc logs :
  route c B want secs acc logs =
  (let* (a, l) := route c B want secs acc [] in Ok (a, logs ++ l)).
Proof.
  revert acc logs. induction secs as [|[tag body] secs IH]; intros acc logs.
  - cbn [route bind]. rewrite app_nil_r. reflexivity.
  - rewrite !route_cons.
    destruct (header_lookup c tag) as [[i d]|].
    + destruct (wanted want (i, d)); [|apply IH].
      destruct (itrack_from_lines c i d body B) as [[tr ws]|e]; cbn [bind]; [|reflexivity].
      rewrite (IH _ (logs ++ _)), (IH _ ([] ++ _)).
      destruct (route c B want secs (tracks_set i d tr acc) []) as [[a l]|e]; cbn [bind]; [|reflexivity].
      rewrite app_assoc. reflexivity.
    + destruct (mem_str tag (required_tags c)); [apply IH|].
      rewrite (IH _ (logs ++ _)), (IH _ ([] ++ _)).
      destruct (route c B want secs acc []) as [[a l]|e]; cbn [bind]; [|reflexivity].
      rewrite app_assoc. reflexivity.
Qed.

(** A successful run appends exactly the per-section log entries, in order. *)
Lemma route_logs secs acc logs t l :
  route c B want secs acc logs = Ok (t, l) -> l = logs ++ flat_map sec_logs secs.
Proof.
  revert acc logs. induction secs as [|[tag body] secs IH]; intros acc logs.
  - cbn [route flat_map]. intro H; inversion H. rewrite app_nil_r. reflexivity.
  - rewrite route_cons. cbn [flat_map]. unfold sec_logs at 1. cbn [fst snd].
    destruct (header_lookup c tag) as [[i d]|].
    + destruct (wanted want (i, d)); [|apply IH].
      destruct (itrack_from_lines c i d body B) as [[tr ws]|e]; cbn [bind]; [|discriminate].
      intro H. apply IH in H. rewrite H, app_assoc. reflexivity.
    + destruct (mem_str tag (required_tags c)); [apply IH|].
      intro H. apply IH in H. rewrite H, app_assoc. reflexivity.
Qed.

(** The accumulator is only ever changed through [tracks_set]. *)
Lemma route_acc_inv (P : tracks -> Prop) :
  (forall i d tr m, P m -> P (tracks_set i d tr m)) ->
  forall secs acc logs t l, P acc -> route c B want secs acc logs = Ok (t, l) -> P t.
Proof.
  intros Hset secs. induction secs as [|[tag body] secs IH]; intros acc logs t l Hacc.
  - cbn [route]. intro H; inversion H; subst. exact Hacc.
  - rewrite route_cons.
    destruct (header_lookup c tag) as [[i d]|].
    + destruct (wanted want (i, d)); [|apply IH; exact Hacc].
      destruct (itrack_from_lines c i d body B) as [[tr ws]|e]; cbn [bind]; [|discriminate].
      apply IH. apply Hset. exact Hacc.
    + destruct (mem_str tag (required_tags c)); apply IH; exact Hacc.
Qed.

Lemma route_inner_nonempty secs acc logs t l :
  inner_nonempty acc -> route c B want secs acc logs = Ok (t, l) -> inner_nonempty t.
Proof. apply (route_acc_inv inner_nonempty). intros; apply inner_nonempty_set; assumption. Qed.

(** Sections that are not wanted instrument sections leave the accumulator alone. *)
Lemma route_no_wanted secs acc logs t l :
  (forall s p, In s secs -> header_lookup c (fst s) = Some p -> wanted want p = false) ->
  route c B want secs acc logs = Ok (t, l) -> t = acc.
Proof.
  revert acc logs. induction secs as [|[tag body] secs IH]; intros acc logs Hw.
  - cbn [route]. intro H; inversion H; reflexivity.
  - rewrite route_cons.
    assert (Hw' : forall s p, In s secs -> header_lookup c (fst s) = Some p -> wanted want p = false).
    { intros s p Hin. apply Hw. right; exact Hin. }
    destruct (header_lookup c tag) as [[i d]|] eqn:Eh.
    + rewrite (Hw (tag, body) (i, d) (or_introl eq_refl) Eh). apply IH; exact Hw'.
    + destruct (mem_str tag (required_tags c)); apply IH; exact Hw'.
Qed.

(** Success: exactly when every wanted instrument section builds. *)
Lemma route_ok_iff secs acc logs :
  (exists r, route c B want secs acc logs = Ok r) <-> Forall (builds c B want) secs.
Proof.
  revert acc logs. induction secs as [|[tag body] secs IH]; intros acc logs.
  - split; [constructor | intros _; eexists; reflexivity].
  - rewrite route_cons. split.
    + intro H. constructor.
      * unfold builds; cbn [fst snd]. destruct (header_lookup c tag) as [[i d]|]; [|exact I].
        intro Hw. rewrite Hw in H.
        destruct (itrack_from_lines c i d body B) as [[tr ws]|e]; [eauto|].
        destruct H as [r H]; discriminate.
      * destruct (header_lookup c tag) as [[i d]|].
        -- destruct (wanted want (i, d)); [|eapply IH; exact H].
           destruct (itrack_from_lines c i d body B) as [[tr ws]|e]; cbn [bind] in H;
             [eapply IH; exact H | destruct H as [r H]; discriminate].
        -- destruct (mem_str tag (required_tags c)); eapply IH; exact H.
    + intro H. inversion H as [|s l Hb Hrest]; subst.
      unfold builds in Hb; cbn [fst snd] in Hb.
      destruct (header_lookup c tag) as [[i d]|].
      * destruct (wanted want (i, d)); [|apply IH; exact Hrest].
        destruct (Hb eq_refl) as (tr & ws & E). rewrite E. cbn [bind]. apply IH; exact Hrest.
      * destruct (mem_str tag (required_tags c)); apply IH; exact Hrest.
Qed.

(** Inversion of a successful run into per-section facts about the resulting mapping: a key is
    bound to the track built from the (unique, when headers are distinct) wanted section carrying
    it, and otherwise keeps its binding in the initial accumulator. *)
Definition sec_builds (secs : list sec) (i d : str) (tr : itrack) : Prop :=
  exists tag body ws, In (tag, body) secs /\ header_lookup c tag = Some (i, d) /\
    wanted want (i, d) = true /\ itrack_from_lines c i d body B = Ok (tr, ws).
Definition sec_touches (secs : list sec) (i d : str) : Prop :=
  exists tag body, In (tag, body) secs /\ header_lookup c tag = Some (i, d) /\ wanted want (i, d) = true.

Lemma route_lookup secs acc logs t l :
  NoDup (map fst secs) -> route c B want secs acc logs = Ok (t, l) ->
  forall i d tr, lookup_tracks t i d = Some tr <->
    sec_builds secs i d tr \/ (~ sec_touches secs i d /\ lookup_tracks acc i d = Some tr).
Proof.
  revert acc logs. induction secs as [|[tag body] secs IH]; intros acc logs Hnd.
  - cbn [route]. intro H; inversion H; subst. intros i d tr. split.
    + intro E. right. split; [|exact E]. intros (tg & bd & [] & _).
    + intros [(tg & bd & ws & [] & _) | [_ E]]; exact E.
  - cbn [map fst] in Hnd. inversion Hnd as [|x xs Hnotin Hnd']; subst.
    rewrite route_cons.
    (* sections of the tail never carry the head's tag *)
    assert (Htail : forall bd, ~ In (tag, bd) secs).
    { intros bd Hin. apply Hnotin. apply (in_map fst) in Hin. exact Hin. }
    destruct (header_lookup c tag) as [[i0 d0]|] eqn:Eh.
    + destruct (wanted want (i0, d0)) eqn:Ew.
      * destruct (itrack_from_lines c i0 d0 body B) as [[tr0 ws0]|e] eqn:Et; cbn [bind]; [|discriminate].
        intros H i d tr. rewrite (IH _ _ Hnd' H i d tr).
        assert (Hnt : ~ sec_touches secs i0 d0).
        { intros (tg & bd & Hin & Hh & _). pose proof (header_lookup_inj c _ _ _ Hh Eh). subst tg.
          exact (Htail bd Hin). }
        destruct (str_eq_dec i i0) as [-> | Hi]; [destruct (str_eq_dec d d0) as [-> | Hd]|].
        -- rewrite lookup_tracks_set_same. split.
           ++ intros [(tg & bd & ws & Hin & Hh & Hw & Hb) | [_ E]].
              ** exfalso. apply Hnt. exists tg, bd. auto.
              ** inversion E; subst. left. exists tag, body, ws0. repeat split; auto. left; reflexivity.
           ++ intros [(tg & bd & ws & [Hin | Hin] & Hh & Hw & Hb) | [Hn _]].
              ** inversion Hin; subst. right. split; [exact Hnt|]. congruence.
              ** exfalso. apply Hnt. exists tg, bd. auto.
              ** exfalso. apply Hn. exists tag, body. repeat split; auto. left; reflexivity.
        -- rewrite lookup_tracks_set_other by congruence. split.
           ++ intros [(tg & bd & ws & Hin & Hh & Hw & Hb) | [Hn E]].
              ** left. exists tg, bd, ws. repeat split; auto. right; exact Hin.
              ** right. split; [|exact E]. intros (tg & bd & [Hin | Hin] & Hh & Hw).
                 --- inversion Hin; subst. congruence.
                 --- apply Hn. exists tg, bd. auto.
           ++ intros [(tg & bd & ws & [Hin | Hin] & Hh & Hw & Hb) | [Hn E]].
              ** inversion Hin; subst. congruence.
              ** left. exists tg, bd, ws. auto.
              ** right. split; [|exact E]. intros (tg & bd & Hin & Hh & Hw). apply Hn.
                 exists tg, bd. repeat split; auto. right; exact Hin.
        -- rewrite lookup_tracks_set_other by congruence. split.
           ++ intros [(tg & bd & ws & Hin & Hh & Hw & Hb) | [Hn E]].
              ** left. exists tg, bd, ws. repeat split; auto. right; exact Hin.
              ** right. split; [|exact E]. intros (tg & bd & [Hin | Hin] & Hh & Hw).
                 --- inversion Hin; subst. congruence.
                 --- apply Hn. exists tg, bd. auto.
           ++ intros [(tg & bd & ws & [Hin | Hin] & Hh & Hw & Hb) | [Hn E]].
              ** inversion Hin; subst. congruence.
              ** left. exists tg, bd, ws. auto.
              ** right. split; [|exact E]. intros (tg & bd & Hin & Hh & Hw). apply Hn.
                 exists tg, bd. repeat split; auto. right; exact Hin.
      * intros H i d tr. rewrite (IH _ _ Hnd' H i d tr). split.
        -- intros [(tg & bd & ws & Hin & Hh & Hw & Hb) | [Hn E]].
           ++ left. exists tg, bd, ws. repeat split; auto. right; exact Hin.
           ++ right. split; [|exact E]. intros (tg & bd & [Hin | Hin] & Hh & Hw).
              ** inversion Hin; subst. congruence.
              ** apply Hn. exists tg, bd. auto.
        -- intros [(tg & bd & ws & [Hin | Hin] & Hh & Hw & Hb) | [Hn E]].
           ++ inversion Hin; subst. congruence.
           ++ left. exists tg, bd, ws. auto.
           ++ right. split; [|exact E]. intros (tg & bd & Hin & Hh & Hw). apply Hn.
              exists tg, bd. repeat split; auto. right; exact Hin.
    + assert (Hgoal : forall lg, route c B want secs acc lg = Ok (t, l) ->
                forall i d tr, lookup_tracks t i d = Some tr <->
                  sec_builds ((tag, body) :: secs) i d tr \/
                  (~ sec_touches ((tag, body) :: secs) i d /\ lookup_tracks acc i d = Some tr)).
      { intros lg H i d tr. rewrite (IH _ _ Hnd' H i d tr). split.
        -- intros [(tg & bd & ws & Hin & Hh & Hw & Hb) | [Hn E]].
           ++ left. exists tg, bd, ws. repeat split; auto. right; exact Hin.
           ++ right. split; [|exact E]. intros (tg & bd & [Hin | Hin] & Hh & Hw).
              ** inversion Hin; subst. congruence.
              ** apply Hn. exists tg, bd. auto.
        -- intros [(tg & bd & ws & [Hin | Hin] & Hh & Hw & Hb) | [Hn E]].
           ++ inversion Hin; subst. congruence.
           ++ left. exists tg, bd, ws. auto.
           ++ right. split; [|exact E]. intros (tg & bd & Hin & Hh & Hw). apply Hn.
              exists tg, bd. repeat split; auto. right; exact Hin. }
      destruct (mem_str tag (required_tags c)); apply Hgoal.
Qed.

(** The special case of an empty initial mapping. *)
Lemma route_lookup_nil secs logs t l :
  NoDup (map fst secs) -> route c B want secs [] logs = Ok (t, l) ->
  forall i d tr, lookup_tracks t i d = Some tr <-> sec_builds secs i d tr.
Proof.
  intros Hnd H i d tr. rewrite (route_lookup secs [] logs t l Hnd H). split.
  - intros [H1 | [_ H1]]; [exact H1 | discriminate].
  - intro H1; left; exact H1.
Qed.

End Route.

(** A built track is labelled with the instrument and difficulty it was built for. *)
Lemma itrack_from_lines_labels c i d body B tr ws :
  itrack_from_lines c i d body B = Ok (tr, ws) -> it_instr tr = i /\ it_diff tr = d.
Proof.
  unfold itrack_from_lines. intro H.
  apply bind_ok in H as (outs & _ & H).
  apply bind_ok in H as (sp_tm & _ & H).
  apply bind_ok in H as (tev_tm & _ & H).
  apply bind_ok in H as (notes & _ & H).
  inversion H; subst. split; reflexivity.
Qed.

(** [builds] is monotone in the selection: what builds unrestricted builds under any selection. *)
Lemma builds_None_any c B want s : builds c B None s -> builds c B want s.
Proof.
  unfold builds. destruct (header_lookup c (fst s)) as [[i d]|]; [|auto].
  intros H _. apply H. reflexivity.
Qed.

(** * The selection-independent part of [from_secs] *)
Definition fixed_part (c : cfg) (secs : list sec)
  : result (metadata * sync_track * global_events_track * list log) :=
  if negb (forallb (fun t => match assoc t secs with Some _ => true | None => false end)
                   (required_tags c))
  then Err EValue
  else
    let* song := sec_lookup (tag_song c) secs in
    let* meta := meta_parse c song in
    let* R := meta_resolution meta in
    let* sync_lines := sec_lookup (tag_sync c) secs in
    let* (sync, w1) := sync_from_lines c R sync_lines in
    let* ev_lines := sec_lookup (tag_events c) secs in
    let* (gev, w2) := globals_from_lines c ev_lines (st_bpm sync) in
    Ok (meta, sync, gev, map LUnparsable w1 ++ map LUnparsable w2).

Definition finish (c : cfg) (secs : list sec) (want : option (list (str * str)))
  (p : metadata * sync_track * global_events_track * list log) : result (chart * list log) :=
  let '(meta, sync, gev, l0) := p in
  let* (tracks, logs) := route c (st_bpm sync) want secs [] l0 in
  Ok ({| c_meta := meta; c_gev := gev; c_sync := sync; c_tracks := tracks |}, logs).

Lemma from_secs_split c secs want :
  from_secs c secs want = (let* p := fixed_part c secs in finish c secs want p).
Proof.
  unfold from_secs, fixed_part.
  destruct (negb _); [reflexivity|].
  destruct (sec_lookup (tag_song c) secs) as [song|e]; cbn [bind]; [|reflexivity].
  destruct (meta_parse c song) as [meta|e]; cbn [bind]; [|reflexivity].
  destruct (meta_resolution meta) as [R|e]; cbn [bind]; [|reflexivity].
  destruct (sec_lookup (tag_sync c) secs) as [sl|e]; cbn [bind]; [|reflexivity].
  destruct (sync_from_lines c R sl) as [[sync w1]|e]; cbn [bind]; [|reflexivity].
  destruct (sec_lookup (tag_events c) secs) as [el|e]; cbn [bind]; [|reflexivity].
  destruct (globals_from_lines c el (st_bpm sync)) as [[gev w2]|e]; cbn [bind]; reflexivity.
Qed.

(** [fixed_part] only looks at which required tags are present and at the three bodies. *)
Lemma fixed_part_ext c secs secs' :
  (forall t, In t (required_tags c) ->
     match assoc t secs with Some _ => true | None => false end =
     match assoc t secs' with Some _ => true | None => false end) ->
  assoc (tag_song c) secs = assoc (tag_song c) secs' ->
  assoc (tag_sync c) secs = assoc (tag_sync c) secs' ->
  assoc (tag_events c) secs = assoc (tag_events c) secs' ->
  fixed_part c secs = fixed_part c secs'.
Proof.
  intros Hreq H1 H2 H3. unfold fixed_part, sec_lookup. rewrite H1, H2, H3.
  replace (forallb (fun t => match assoc t secs with Some _ => true | None => false end) (required_tags c))
    with (forallb (fun t => match assoc t secs' with Some _ => true | None => false end) (required_tags c)).
  - reflexivity.
  - revert Hreq. induction (required_tags c) as [|t ts IH]; intro Hreq; cbn [forallb]; [reflexivity|].
    rewrite (Hreq t (or_introl eq_refl)). f_equal. apply IH. intros t' Ht'. apply Hreq. right; exact Ht'.
Qed.

Lemma fixed_part_ext_all c secs secs' :
  (forall t, assoc t secs = assoc t secs') -> fixed_part c secs = fixed_part c secs'.
Proof. intro H. apply fixed_part_ext; intros; rewrite ?H; reflexivity. Qed.

Lemma fixed_part_perm c secs secs' :
  NoDup (map fst secs) -> Permutation secs secs' -> fixed_part c secs = fixed_part c secs'.
Proof. intros Hnd Hp. apply fixed_part_ext_all. intro t. apply assoc_perm; assumption. Qed.

(** Inversion of a successful [from_secs]. *)
Lemma from_secs_ok_inv c secs want ch logs :
  from_secs c secs want = Ok (ch, logs) ->
  exists l0, fixed_part c secs = Ok (c_meta ch, c_sync ch, c_gev ch, l0) /\
             route c (st_bpm (c_sync ch)) want secs [] l0 = Ok (c_tracks ch, logs).
Proof.
  rewrite from_secs_split. intro H. apply bind_ok in H as ([[[meta sync] gev] l0] & Hf & H).
  unfold finish in H. apply bind_ok in H as ([tracks lg] & Hr & H). inversion H; subst.
  exists l0. cbn. split; [exact Hf | exact Hr].
Qed.

Lemma from_secs_of_parts c secs want meta sync gev l0 tracks logs :
  fixed_part c secs = Ok (meta, sync, gev, l0) ->
  route c (st_bpm sync) want secs [] l0 = Ok (tracks, logs) ->
  from_secs c secs want = Ok ({| c_meta := meta; c_gev := gev; c_sync := sync; c_tracks := tracks |}, logs).
Proof. intros Hf Hr. rewrite from_secs_split, Hf. cbn [bind finish]. rewrite Hr. reflexivity. Qed.

Lemma from_secs_fixed_err c secs want e : fixed_part c secs = Err e -> from_secs c secs want = Err e.
Proof. intro H. rewrite from_secs_split, H. reflexivity. Qed.
