(** Proofs/ChartTimed.v — the tempo-level theorems (C11, C12) lifted to whole parsed charts. *)
From CP Require Import Base.Prelude Base.Str Base.Regex Base.Cfg Base.Float64 Base.Timedelta
  Model.Lines Model.Sync Model.Instrument Model.Chart
  Spec.C11 Spec.Tempo Spec.ChartSpec Spec.C12 Spec.ChartTimed
  Proofs.C11 Proofs.C12 Proofs.Tempo.
From Coq Require Import Sorted Lia.
Open Scope Z_scope.

(** * Lists *)

Lemma Forall_map_combine {A B C} (P : A -> Prop) (f : A * B -> C) (g : C -> A) :
  (forall a b, g (f (a, b)) = a) ->
  forall tms ds, Forall P tms -> Forall P (map g (map f (combine tms ds))).
Proof.
  intros Hfg tms ds HP. rewrite Forall_forall in *. intros x Hx.
  rewrite map_map in Hx. apply in_map_iff in Hx. destruct Hx as [[a b] [E Hin]].
  rewrite Hfg in E. subst x. apply HP. eapply in_combine_l. exact Hin.
Qed.

Lemma Forall_app_intro {A} (P : A -> Prop) l1 l2 :
  Forall P l1 -> Forall P l2 -> Forall P (l1 ++ l2).
Proof. intros H1 H2. apply Forall_app. split; assumption. Qed.

(** * Nested track mapping *)

Definition tracks_of (m : list (str * list (str * itrack))) : list itrack :=
  flat_map (fun p => map snd (snd p)) m.

Lemma dict_set_in {A} k (v : A) d x :
  In x (map snd (dict_set k v d)) -> x = v \/ In x (map snd d).
Proof.
  induction d as [|[k' v'] d IH]; simpl; intro H.
  - destruct H as [H|[]]. left. symmetry. exact H.
  - destruct (str_eqb k k'); simpl in H.
    + destruct H as [H|H]; [left; symmetry; exact H | right; right; exact H].
    + destruct H as [H|H]; [right; left; exact H|].
      destruct (IH H) as [H'|H']; [left; exact H' | right; right; exact H'].
Qed.

Lemma dict_set_outer k v m x :
  In x (tracks_of (dict_set k v m)) -> In x (map snd v) \/ In x (tracks_of m).
Proof.
  unfold tracks_of. induction m as [|[k' v'] m IH]; simpl; intro H.
  - rewrite app_nil_r in H. left. exact H.
  - destruct (str_eqb k k'); simpl in H; apply in_app_or in H.
    + destruct H as [H|H]; [left; exact H | right; apply in_or_app; right; exact H].
    + destruct H as [H|H]; [right; apply in_or_app; left; exact H|].
      destruct (IH H) as [H'|H']; [left; exact H' | right; apply in_or_app; right; exact H'].
Qed.

Lemma assoc_tracks i m inner x :
  assoc i m = Some inner -> In x (map snd inner) -> In x (tracks_of m).
Proof.
  unfold tracks_of. induction m as [|[k' v'] m IH]; simpl; intros H Hin; [discriminate H|].
  apply in_or_app. destruct (str_eqb i k').
  - inversion H; subst v'. left. exact Hin.
  - right. apply IH; assumption.
Qed.

Lemma tracks_set_in i d tr m x :
  In x (tracks_of (tracks_set i d tr m)) -> x = tr \/ In x (tracks_of m).
Proof.
  unfold tracks_set. intro H. apply dict_set_outer in H. destruct H as [H|H]; [|right; exact H].
  apply dict_set_in in H. destruct H as [H|H]; [left; exact H|].
  destruct (assoc i m) as [inner|] eqn:E.
  - right. eapply assoc_tracks; eassumption.
  - destruct H.
Qed.

Lemma route_inv c B want (P : itrack -> Prop) :
  (forall i d body tr ws, itrack_from_lines c i d body B = Ok (tr, ws) -> P tr) ->
  forall secs acc logs tracks logs',
    Forall P (tracks_of acc) ->
    route c B want secs acc logs = Ok (tracks, logs') ->
    Forall P (tracks_of tracks).
Proof.
  intros HP. induction secs as [|[tag body] secs IH]; intros acc logs tracks logs' Hacc H.
  - simpl in H. inversion H; subst. exact Hacc.
  - simpl in H. destruct (header_lookup c tag) as [[i d]|].
    + destruct (wanted want (i, d)).
      * apply bind_ok in H. destruct H as [[tr ws] [Hit H]].
        eapply IH; [|exact H].
        rewrite Forall_forall in *. intros x Hx.
        apply tracks_set_in in Hx. destruct Hx as [Hx|Hx].
        -- subst x. eapply HP. exact Hit.
        -- apply Hacc. exact Hx.
      * eapply IH; eassumption.
    + destruct (mem_str tag (required_tags c)); eapply IH; eassumption.
Qed.

(** * One instrument track *)

Definition track_ok (B : bpm_events) (tr : itrack) : Prop :=
  Forall (stored_ok B) (track_points tr) /\ Forall (note_stored_ok B) (it_notes tr).

Lemma itrack_ok c i d body B tr ws :
  sorted_strict (evs B) -> evs B <> [] ->
  itrack_from_lines c i d body B = Ok (tr, ws) -> track_ok B tr.
Proof.
  intros Hs Hne H. unfold itrack_from_lines in H.
  apply bind_ok in H. destruct H as [outs [_ H]]. cbv zeta in H.
  apply bind_ok in H. destruct H as [sp_tm [Hsp H]].
  apply bind_ok in H. destruct H as [tev_tm [Htev H]].
  apply bind_ok in H. destruct H as [notes [Hn H]].
  inversion H; subst tr. clear H.
  apply C11_threaded in Hsp; [|assumption..]. destruct Hsp as [_ Hsp].
  apply C11_threaded in Htev; [|assumption..]. destruct Htev as [_ Htev].
  apply C11_notes in Hn; [|assumption..].
  unfold track_ok, track_points. cbn [it_notes it_sps it_tevs]. split; [|exact Hn].
  apply Forall_app_intro; [|apply Forall_app_intro].
  - rewrite Forall_forall in *. intros x Hx. apply in_map_iff in Hx.
    destruct Hx as [n [E Hin]]. subst x. apply (Hn n Hin).
  - apply Forall_map_combine; [reflexivity | exact Hsp].
  - apply Forall_map_combine; [reflexivity | exact Htev].
Qed.

(** * Global events *)

Lemma build_globals_ok B ds out :
  sorted_strict (evs B) -> evs B <> [] ->
  build_globals B ds = Ok out -> Forall (stored_ok B) (map ge_at out).
Proof.
  intros Hs Hne H. unfold build_globals in H.
  apply bind_ok in H. destruct H as [tms [Ht H]]. inversion H; subst out. clear H.
  apply C11_threaded in Ht; [|assumption..]. destruct Ht as [_ Ht].
  apply Forall_map_combine; [reflexivity | exact Ht].
Qed.

Lemma globals_ok c lines B gev w :
  sorted_strict (evs B) -> evs B <> [] ->
  globals_from_lines c lines B = Ok (gev, w) ->
  Forall (stored_ok B) (map ge_at (g_text gev)) /\
  Forall (stored_ok B) (map ge_at (g_section gev)) /\
  Forall (stored_ok B) (map ge_at (g_lyric gev)).
Proof.
  intros Hs Hne H. unfold globals_from_lines in H.
  apply bind_ok in H. destruct H as [outs [_ H]].
  apply bind_ok in H. destruct H as [tx [Htx H]].
  apply bind_ok in H. destruct H as [se [Hse H]].
  apply bind_ok in H. destruct H as [ly [Hly H]].
  inversion H; subst gev. clear H. cbn [g_text g_section g_lyric].
  repeat split; eapply build_globals_ok; eassumption.
Qed.

(** * The sync track *)

Lemma sync_ok c R lines sync w :
  sync_from_lines c R lines = Ok (sync, w) ->
  let B := st_bpm sync in
  tempo_wf B /\ wf_bpm B /\ Forall (stored_ok B) (map ts_at (st_ts sync)) /\
  (forall i e, nth_Z (evs B) i = Some e -> b_idx e = i).
Proof.
  intro H. unfold sync_from_lines in H.
  apply bind_ok in H. destruct H as [outs [_ H]]. cbv zeta in H.
  apply bind_ok in H. destruct H as [B [HB H]].
  apply bind_ok in H. destruct H as [tms [Ht H]].
  apply bind_ok in H. destruct H as [anchors [_ H]].
  match type of H with
  | match ?t with [] => _ | _ => _ end = _ => remember t as tss eqn:Etss
  end.
  destruct tss as [|t0 tss']; [discriminate H|].
  destruct (t_tick (ts_at t0) =? 0); [|discriminate H].
  inversion H; subst sync. clear H. cbn [st_bpm st_ts].
  pose proof (C11_built_wf _ _ _ _ HB) as [Hwf _].
  pose proof (built_tempo_wf _ _ _ _ HB) as [Htw _].
  pose proof (C11_bpm_self _ _ _ _ HB) as Hself.
  assert (Hs : sorted_strict (evs B)) by (apply Hwf).
  assert (Hne : evs B <> []).
  { destruct Hwf as [_ [e0 [rest [E _]]]]. rewrite E. discriminate. }
  apply C11_threaded in Ht; [|assumption..]. destruct Ht as [_ Ht].
  split; [exact Htw|]. split; [exact Hwf|]. split.
  - rewrite Etss. apply Forall_map_combine; [|exact Ht].
    intros a b. destruct (ts_payload c b). reflexivity.
  - intros i e Hn. apply (Hself i e Hn).
Qed.

(** * Whole charts *)

Lemma C11_chart : C11_chart_stmt.
Proof.
  unfold C11_chart_stmt. intros c secs want ch logs H. unfold from_secs in H.
  destruct (negb _); [discriminate H|].
  apply bind_ok in H. destruct H as [song [_ H]].
  apply bind_ok in H. destruct H as [meta [_ H]].
  apply bind_ok in H. destruct H as [R [_ H]].
  apply bind_ok in H. destruct H as [sync_lines [_ H]].
  apply bind_ok in H. destruct H as [[sync w1] [Hsync H]].
  apply bind_ok in H. destruct H as [ev_lines [_ H]].
  apply bind_ok in H. destruct H as [[gev w2] [Hgev H]].
  apply bind_ok in H. destruct H as [[tracks logs0] [Hroute H]].
  inversion H; subst ch logs0. clear H. cbn [c_sync].
  apply sync_ok in Hsync. cbv zeta in Hsync.
  destruct Hsync as [Htw [Hwf [Hts Hself]]].
  assert (Hs : sorted_strict (evs (st_bpm sync))) by (apply Hwf).
  assert (Hne : evs (st_bpm sync) <> []).
  { destruct Hwf as [_ [e0 [rest [E _]]]]. rewrite E. discriminate. }
  apply globals_ok in Hgev; [|assumption..]. destruct Hgev as [Htx [Hse Hly]].
  assert (Htr : Forall (track_ok (st_bpm sync)) (tracks_of tracks)).
  { eapply route_inv; [| |exact Hroute].
    - intros i d body tr ws Hit. eapply itrack_ok; eassumption.
    - constructor. }
  split; [exact Htw|]. split; [exact Hwf|]. split; [|split; [|exact Hself]].
  - unfold chart_points, chart_tracks. cbn [c_sync c_gev c_tracks].
    repeat (apply Forall_app_intro; [assumption|]).
    rewrite Forall_forall in *. intros x Hx. apply in_flat_map in Hx.
    destruct Hx as [tr [Hin Hx]]. destruct (Htr tr Hin) as [Hp _].
    rewrite Forall_forall in Hp. apply Hp. exact Hx.
  - unfold chart_notes, chart_tracks. cbn [c_tracks].
    rewrite Forall_forall in *. intros x Hx. apply in_flat_map in Hx.
    destruct Hx as [tr [Hin Hx]]. destruct (Htr tr Hin) as [_ Hp].
    rewrite Forall_forall in Hp. apply Hp. exact Hx.
Qed.

Lemma from_file_from_secs c text want r :
  from_file c text want = Ok r ->
  exists secs, from_secs c secs want = Ok r.
Proof.
  unfold from_file. intro H. apply bind_ok in H. destruct H as [secs [_ H]].
  exists secs. exact H.
Qed.

Lemma C11_file : C11_file_stmt.
Proof.
  unfold C11_file_stmt. intros c text want ch logs H.
  apply from_file_from_secs in H. destruct H as [secs H].
  apply C11_chart in H. cbv zeta in H. destruct H as [H1 [_ [H2 [H3 _]]]].
  cbv zeta. auto.
Qed.

Lemma C12_chart : C12_chart_stmt.
Proof.
  unfold C12_chart_stmt. intros c text want ch logs H e1 e2 H1 H2.
  apply C11_file in H. cbv zeta in H. destruct H as [Htw [Hp _]].
  rewrite Forall_forall in Hp. pose proof (Hp e1 H1) as S1. pose proof (Hp e2 H2) as S2.
  split.
  - intro E. apply (C12_equal_ticks _ _ _ S1 S2 E).
  - intro Hle. apply (C12_events _ _ _ Htw S1 S2 Hle).
Qed.
