(** Proofs/C17.v — memoisation tables shared across parses and threads are transparent.

    Finding.  The invariant [CacheInv] of Spec/C17.v speaks only about what [lookup] returns, i.e.
    about the FIRST entry for every key.  A cache [[(t,k,good); (t,k,bad)]] satisfies it, yet evicting
    the first entry exposes the shadowed bad one.  So [C17_inv_evict_stmt], [C17_cached_stmt],
    [C17_history_stmt] and [C17_schedule_stmt] are FALSE as stated (for an arbitrary starting cache
    that merely satisfies [CacheInv]); they are refuted below ([*_refuted]).  [C17_inv_call_stmt]
    is true and proved as stated.

    All five statements hold with the entry-wise invariant [AllGood] (every entry, shadowed or not,
    is a value of the memoised function at its key) in place of [CacheInv] ([*_partial]).  [AllGood]
    implies [CacheInv], holds of the empty cache and of every cache reachable from the empty cache by
    memoised calls and evictions ([Reachable_AllGood]) — which is the situation of the Python
    package, whose lru_caches start empty — so the [*_from_empty] / [*_reachable] corollaries are the
    statements that matter for chartparse. *)
From CP Require Import Base.Prelude Spec.C17.
Open Scope Z_scope.

#[local] Arguments Ret {table key value A} a.
#[local] Arguments Memo {table key value A} t k cont.

Section MemoProofs.
Variable table : Type.
Variable key : Type.
Variable value : Type.
Variable table_eqb : table -> table -> bool.
Variable key_eqb : key -> key -> bool.
Hypothesis table_eqb_eq : forall a b, table_eqb a b = true <-> a = b.
Hypothesis key_eqb_eq : forall a b, key_eqb a b = true <-> a = b.
Variable f : table -> key -> value.

Notation cache := (C17.cache table key value).
Notation prog := (C17.prog table key value).
Notation lookup := (C17.lookup table key value table_eqb key_eqb).
Notation CacheInv := (C17.CacheInv table key value table_eqb key_eqb f).
Notation memo_call := (C17.memo_call table key value table_eqb key_eqb f).
Notation evict := (C17.evict table key value).
Notation run_pure := (C17.run_pure table key value f).
Notation run_cached := (C17.run_cached table key value table_eqb key_eqb f).
Notation run_history := (C17.run_history table key value table_eqb key_eqb f).
Notation run_sched := (C17.run_sched table key value table_eqb key_eqb f).
Notation step_thread := (C17.step_thread table key value table_eqb key_eqb f).
Notation finished := (C17.finished table key value).

(** *** The entry-wise invariant *)
Definition good_entry (e : table * key * value) : Prop := snd e = f (fst (fst e)) (snd (fst e)).
Definition AllGood (c : cache) : Prop := Forall good_entry c.

Lemma AllGood_nil : AllGood [].
Proof. constructor. Qed.

Lemma lookup_In c t k v : lookup c t k = Some v -> In (t, k, v) c.
Proof.
  induction c as [|[[t' k'] v'] c IH]; simpl; intro H; [discriminate|].
  destruct (table_eqb t t' && key_eqb k k') eqn:E.
  - apply andb_true_iff in E as [E1 E2].
    apply table_eqb_eq in E1. apply key_eqb_eq in E2. inversion H; subst. left; reflexivity.
  - right; auto.
Qed.

Lemma AllGood_lookup c t k v : AllGood c -> lookup c t k = Some v -> v = f t k.
Proof.
  intros HG HL. apply lookup_In in HL.
  unfold AllGood in HG. rewrite Forall_forall in HG. apply (HG _ HL).
Qed.

Lemma AllGood_CacheInv c : AllGood c -> CacheInv c.
Proof. intros HG t k v HL. eapply AllGood_lookup; eauto. Qed.

Lemma AllGood_evict keep c : AllGood c -> AllGood (evict keep c).
Proof.
  unfold AllGood, C17.evict. rewrite !Forall_forall. intros H e He.
  apply filter_In in He as [He _]. auto.
Qed.

Lemma AllGood_memo_call c t k :
  AllGood c -> AllGood (fst (memo_call c t k)) /\ snd (memo_call c t k) = f t k.
Proof.
  intros HG. unfold C17.memo_call. destruct (lookup c t k) as [v|] eqn:E; simpl.
  - split; [assumption | eapply AllGood_lookup; eauto].
  - split; [constructor; [reflexivity | assumption] | reflexivity].
Qed.

(** *** The weak invariant: what is true as stated *)
Lemma CacheInv_memo_call c t k :
  CacheInv c -> CacheInv (fst (memo_call c t k)) /\ snd (memo_call c t k) = f t k.
Proof.
  intros HI. unfold C17.memo_call. destruct (lookup c t k) as [v|] eqn:E; simpl.
  - split; [assumption | apply HI; assumption].
  - split; [|reflexivity].
    intros t' k' v' HL. simpl in HL.
    destruct (table_eqb t' t && key_eqb k' k) eqn:E'.
    + apply andb_true_iff in E' as [E1 E2].
      apply table_eqb_eq in E1. apply key_eqb_eq in E2. inversion HL; subst. reflexivity.
    + apply HI; assumption.
Qed.

(** *** Caches built by the system itself *)
Inductive Reachable : cache -> Prop :=
| R_empty : Reachable []
| R_call c t k : Reachable c -> Reachable (fst (memo_call c t k))
| R_evict keep c : Reachable c -> Reachable (evict keep c).

Lemma Reachable_AllGood c : Reachable c -> AllGood c.
Proof.
  induction 1.
  - apply AllGood_nil.
  - apply AllGood_memo_call; assumption.
  - apply AllGood_evict; assumption.
Qed.

Lemma Reachable_CacheInv c : Reachable c -> CacheInv c.
Proof. intro H. apply AllGood_CacheInv, Reachable_AllGood, H. Qed.

(** *** One program *)
Lemma AllGood_run_cached A ev n (p : prog A) c :
  AllGood c -> AllGood (fst (run_cached ev n p c)) /\ snd (run_cached ev n p c) = run_pure p.
Proof.
  revert n c. induction p as [a | t k cont IH]; intros n c HG; simpl.
  - split; [assumption | reflexivity].
  - pose proof (AllGood_memo_call (evict (ev n) c) t k (AllGood_evict _ _ HG)) as [H1 H2].
    destruct (memo_call (evict (ev n) c) t k) as [c' v]. simpl in H1, H2. subst v.
    apply IH; assumption.
Qed.

Lemma Reachable_run_cached A ev n (p : prog A) c :
  Reachable c -> Reachable (fst (run_cached ev n p c)).
Proof.
  revert n c. induction p as [a | t k cont IH]; intros n c HR; simpl.
  - assumption.
  - pose proof (R_call _ t k (R_evict (ev n) _ HR)) as H1.
    destruct (memo_call (evict (ev n) c) t k) as [c' v]. simpl in H1.
    apply IH; assumption.
Qed.

(** *** Histories *)
Lemma AllGood_run_history A ev (ps : list (prog A)) c :
  AllGood c -> AllGood (fst (run_history ev ps c)) /\ snd (run_history ev ps c) = map run_pure ps.
Proof.
  revert c. induction ps as [|p ps IH]; intros c HG; simpl.
  - split; [assumption | reflexivity].
  - pose proof (AllGood_run_cached A ev O p c HG) as [H1 H2].
    destruct (run_cached ev 0%nat p c) as [c' a]. simpl in H1, H2. subst a.
    specialize (IH c' H1) as [H3 H4].
    destruct (run_history ev ps c') as [c'' l]. simpl in *. subst l.
    split; [assumption | reflexivity].
Qed.

Lemma Reachable_run_history A ev (ps : list (prog A)) c :
  Reachable c -> Reachable (fst (run_history ev ps c)).
Proof.
  revert c. induction ps as [|p ps IH]; intros c HR; simpl.
  - assumption.
  - pose proof (Reachable_run_cached A ev O p c HR) as H1.
    destruct (run_cached ev 0%nat p c) as [c' a]. simpl in H1.
    specialize (IH c' H1).
    destruct (run_history ev ps c') as [c'' l]. simpl in *. assumption.
Qed.

(** *** Schedules *)
Lemma map_update_nth {X Y} (g : X -> Y) i x (l : list X) :
  map g (update_nth i x l) = update_nth i (g x) (map g l).
Proof.
  revert i. induction l as [|h r IH]; intros [|i]; simpl; try reflexivity. rewrite IH. reflexivity.
Qed.

Lemma update_nth_same {X} i (x : X) l : nth_error l i = Some x -> update_nth i x l = l.
Proof.
  revert i. induction l as [|h r IH]; intros [|i]; simpl; intro H; try discriminate.
  - inversion H; reflexivity.
  - rewrite IH; auto.
Qed.

Lemma AllGood_step_thread A c (p : prog A) :
  AllGood c -> AllGood (fst (step_thread c p)) /\ run_pure (snd (step_thread c p)) = run_pure p.
Proof.
  intros HG. destruct p as [a | t k cont]; simpl.
  - split; [assumption | reflexivity].
  - pose proof (AllGood_memo_call c t k HG) as [H1 H2].
    destruct (memo_call c t k) as [c' v]. simpl in *. subst v. split; [assumption | reflexivity].
Qed.

Lemma AllGood_run_sched A ev sched n (pool : list (prog A)) c :
  AllGood c ->
  AllGood (fst (run_sched ev sched n pool c)) /\
  map run_pure (snd (run_sched ev sched n pool c)) = map run_pure pool.
Proof.
  revert n pool c. induction sched as [|i sched IH]; intros n pool c HG; simpl.
  - split; [assumption | reflexivity].
  - destruct (nth_error pool i) as [p|] eqn:E.
    + pose proof (AllGood_step_thread A (evict (ev n) c) p (AllGood_evict _ _ HG)) as [H1 H2].
      destruct (step_thread (evict (ev n) c) p) as [c' p']. simpl in H1, H2.
      specialize (IH (S n) (update_nth i p' pool) c' H1) as [H3 H4].
      split; [assumption|]. rewrite H4, map_update_nth, H2.
      apply update_nth_same. rewrite nth_error_map, E. reflexivity.
    + apply IH; assumption.
Qed.

Lemma Reachable_run_sched A ev sched n (pool : list (prog A)) c :
  Reachable c -> Reachable (fst (run_sched ev sched n pool c)).
Proof.
  revert n pool c. induction sched as [|i sched IH]; intros n pool c HR; simpl.
  - assumption.
  - destruct (nth_error pool i) as [p|] eqn:E; [|apply IH; assumption].
    destruct p as [a | t k cont]; simpl.
    + apply IH. constructor; assumption.
    + pose proof (R_call _ t k (R_evict (ev n) _ HR)) as H1.
      destruct (memo_call (evict (ev n) c) t k) as [c' v]. simpl in H1.
      apply IH; assumption.
Qed.

(** A finished thread has returned its pure result. *)
Lemma AllGood_run_sched_finished A ev sched n (pool : list (prog A)) c i p0 a :
  AllGood c -> nth_error pool i = Some p0 ->
  match nth_error (snd (run_sched ev sched n pool c)) i with
  | Some p' => finished p' = Some a -> a = run_pure p0
  | None => False
  end.
Proof.
  intros HG Hi.
  pose proof (AllGood_run_sched A ev sched n pool c HG) as [_ H].
  assert (H' : nth_error (map run_pure (snd (run_sched ev sched n pool c))) i
               = nth_error (map run_pure pool) i) by (rewrite H; reflexivity).
  rewrite !nth_error_map, Hi in H'. simpl in H'.
  destruct (nth_error (snd (run_sched ev sched n pool c)) i) as [p'|]; simpl in H'; [|discriminate].
  inversion H' as [H1]. destruct p'; simpl; intro Hf; [|discriminate].
  inversion Hf; subst. simpl. reflexivity.
Qed.

End MemoProofs.

(** *** The deliverables, generalised over the section variables *)

(** True as stated. *)
Lemma C17_inv_call :
  forall (table key value : Type) (table_eqb : table -> table -> bool) (key_eqb : key -> key -> bool),
    (forall a b, table_eqb a b = true <-> a = b) ->
    (forall a b, key_eqb a b = true <-> a = b) ->
    forall f : table -> key -> value,
      C17_inv_call_stmt table key value table_eqb key_eqb f.
Proof. intros table key value teq keq H1 H2 f c t k. apply CacheInv_memo_call; assumption. Qed.

(** The statements with [AllGood] in place of [CacheInv]. *)
Definition C17_inv_call_AllGood_stmt table key value table_eqb key_eqb f : Prop :=
  forall c t k, AllGood table key value f c ->
    AllGood table key value f (fst (memo_call table key value table_eqb key_eqb f c t k)) /\
    snd (memo_call table key value table_eqb key_eqb f c t k) = f t k.
Definition C17_inv_evict_AllGood_stmt (table key value : Type) (f : table -> key -> value) : Prop :=
  forall keep c, AllGood table key value f c -> AllGood table key value f (evict table key value keep c).
Definition C17_cached_AllGood_stmt table key value table_eqb key_eqb f : Prop :=
  forall A ev n (p : prog table key value A) c, AllGood table key value f c ->
    AllGood table key value f (fst (run_cached table key value table_eqb key_eqb f ev n p c)) /\
    snd (run_cached table key value table_eqb key_eqb f ev n p c) = run_pure table key value f p.
Definition C17_history_AllGood_stmt table key value table_eqb key_eqb f : Prop :=
  forall A ev (ps : list (prog table key value A)) c, AllGood table key value f c ->
    AllGood table key value f (fst (run_history table key value table_eqb key_eqb f ev ps c)) /\
    snd (run_history table key value table_eqb key_eqb f ev ps c) = map (run_pure table key value f) ps.
Definition C17_schedule_AllGood_stmt table key value table_eqb key_eqb f : Prop :=
  forall A ev sched n (pool : list (prog table key value A)) c, AllGood table key value f c ->
    AllGood table key value f (fst (run_sched table key value table_eqb key_eqb f ev sched n pool c)) /\
    map (run_pure table key value f) (snd (run_sched table key value table_eqb key_eqb f ev sched n pool c))
    = map (run_pure table key value f) pool.

Lemma C17_inv_call_partial :
  forall (table key value : Type) (table_eqb : table -> table -> bool) (key_eqb : key -> key -> bool),
    (forall a b, table_eqb a b = true <-> a = b) ->
    (forall a b, key_eqb a b = true <-> a = b) ->
    forall f : table -> key -> value,
      C17_inv_call_AllGood_stmt table key value table_eqb key_eqb f.
Proof. intros table key value teq keq H1 H2 f c t k. apply AllGood_memo_call; assumption. Qed.

Lemma C17_inv_evict_partial :
  forall (table key value : Type) (f : table -> key -> value),
    C17_inv_evict_AllGood_stmt table key value f.
Proof. intros table key value f keep c. apply AllGood_evict. Qed.

Lemma C17_cached_partial :
  forall (table key value : Type) (table_eqb : table -> table -> bool) (key_eqb : key -> key -> bool),
    (forall a b, table_eqb a b = true <-> a = b) ->
    (forall a b, key_eqb a b = true <-> a = b) ->
    forall f : table -> key -> value,
      C17_cached_AllGood_stmt table key value table_eqb key_eqb f.
Proof. intros table key value teq keq H1 H2 f A ev n p c. apply AllGood_run_cached; assumption. Qed.

Lemma C17_history_partial :
  forall (table key value : Type) (table_eqb : table -> table -> bool) (key_eqb : key -> key -> bool),
    (forall a b, table_eqb a b = true <-> a = b) ->
    (forall a b, key_eqb a b = true <-> a = b) ->
    forall f : table -> key -> value,
      C17_history_AllGood_stmt table key value table_eqb key_eqb f.
Proof. intros table key value teq keq H1 H2 f A ev ps c. apply AllGood_run_history; assumption. Qed.

Lemma C17_schedule_partial :
  forall (table key value : Type) (table_eqb : table -> table -> bool) (key_eqb : key -> key -> bool),
    (forall a b, table_eqb a b = true <-> a = b) ->
    (forall a b, key_eqb a b = true <-> a = b) ->
    forall f : table -> key -> value,
      C17_schedule_AllGood_stmt table key value table_eqb key_eqb f.
Proof. intros table key value teq keq H1 H2 f A ev sched n pool c. apply AllGood_run_sched; assumption. Qed.

(** The statements that matter for the package: the shared cache started empty (or is any cache the
    system itself can have built).  Here the ORIGINAL conclusions hold, [CacheInv] included. *)
Lemma C17_cached_reachable :
  forall (table key value : Type) (table_eqb : table -> table -> bool) (key_eqb : key -> key -> bool),
    (forall a b, table_eqb a b = true <-> a = b) ->
    (forall a b, key_eqb a b = true <-> a = b) ->
    forall (f : table -> key -> value) A ev n (p : prog table key value A) c,
      Reachable table key value table_eqb key_eqb f c ->
      Reachable table key value table_eqb key_eqb f
        (fst (run_cached table key value table_eqb key_eqb f ev n p c)) /\
      CacheInv table key value table_eqb key_eqb f
        (fst (run_cached table key value table_eqb key_eqb f ev n p c)) /\
      snd (run_cached table key value table_eqb key_eqb f ev n p c) = run_pure table key value f p.
Proof.
  intros table key value teq keq H1 H2 f A ev n p c HR.
  pose proof (Reachable_run_cached table key value teq keq f A ev n p c HR) as HR'.
  split; [assumption|]. split.
  - apply Reachable_CacheInv; assumption.
  - apply AllGood_run_cached; try assumption. eapply Reachable_AllGood; eauto.
Qed.

Lemma C17_history_reachable :
  forall (table key value : Type) (table_eqb : table -> table -> bool) (key_eqb : key -> key -> bool),
    (forall a b, table_eqb a b = true <-> a = b) ->
    (forall a b, key_eqb a b = true <-> a = b) ->
    forall (f : table -> key -> value) A ev (ps : list (prog table key value A)) c,
      Reachable table key value table_eqb key_eqb f c ->
      Reachable table key value table_eqb key_eqb f
        (fst (run_history table key value table_eqb key_eqb f ev ps c)) /\
      CacheInv table key value table_eqb key_eqb f
        (fst (run_history table key value table_eqb key_eqb f ev ps c)) /\
      snd (run_history table key value table_eqb key_eqb f ev ps c) = map (run_pure table key value f) ps.
Proof.
  intros table key value teq keq H1 H2 f A ev ps c HR.
  pose proof (Reachable_run_history table key value teq keq f A ev ps c HR) as HR'.
  split; [assumption|]. split.
  - apply Reachable_CacheInv; assumption.
  - apply AllGood_run_history; try assumption. eapply Reachable_AllGood; eauto.
Qed.

Lemma C17_schedule_reachable :
  forall (table key value : Type) (table_eqb : table -> table -> bool) (key_eqb : key -> key -> bool),
    (forall a b, table_eqb a b = true <-> a = b) ->
    (forall a b, key_eqb a b = true <-> a = b) ->
    forall (f : table -> key -> value) A ev sched n (pool : list (prog table key value A)) c,
      Reachable table key value table_eqb key_eqb f c ->
      Reachable table key value table_eqb key_eqb f
        (fst (run_sched table key value table_eqb key_eqb f ev sched n pool c)) /\
      CacheInv table key value table_eqb key_eqb f
        (fst (run_sched table key value table_eqb key_eqb f ev sched n pool c)) /\
      map (run_pure table key value f)
          (snd (run_sched table key value table_eqb key_eqb f ev sched n pool c))
      = map (run_pure table key value f) pool.
Proof.
  intros table key value teq keq H1 H2 f A ev sched n pool c HR.
  pose proof (Reachable_run_sched table key value teq keq f A ev sched n pool c HR) as HR'.
  split; [assumption|]. split.
  - apply Reachable_CacheInv; assumption.
  - apply AllGood_run_sched; try assumption. eapply Reachable_AllGood; eauto.
Qed.

Lemma C17_history_from_empty :
  forall (table key value : Type) (table_eqb : table -> table -> bool) (key_eqb : key -> key -> bool),
    (forall a b, table_eqb a b = true <-> a = b) ->
    (forall a b, key_eqb a b = true <-> a = b) ->
    forall (f : table -> key -> value) A ev (ps : list (prog table key value A)),
      snd (run_history table key value table_eqb key_eqb f ev ps []) = map (run_pure table key value f) ps.
Proof.
  intros table key value teq keq H1 H2 f A ev ps.
  apply (C17_history_reachable table key value teq keq H1 H2 f A ev ps []). constructor.
Qed.

Lemma C17_schedule_from_empty :
  forall (table key value : Type) (table_eqb : table -> table -> bool) (key_eqb : key -> key -> bool),
    (forall a b, table_eqb a b = true <-> a = b) ->
    (forall a b, key_eqb a b = true <-> a = b) ->
    forall (f : table -> key -> value) A ev sched n (pool : list (prog table key value A)),
      map (run_pure table key value f)
          (snd (run_sched table key value table_eqb key_eqb f ev sched n pool []))
      = map (run_pure table key value f) pool.
Proof.
  intros table key value teq keq H1 H2 f A ev sched n pool.
  apply (C17_schedule_reachable table key value teq keq H1 H2 f A ev sched n pool []). constructor.
Qed.

(** *** Refutations of the statements as given (weak invariant, arbitrary starting cache).
    Instance: one table, one key, boolean values, [f _ _ = true]; the cache
    [[(tt,tt,true); (tt,tt,false)]] satisfies [CacheInv] (the false entry is shadowed); evicting
    every entry whose value is [true] exposes it. *)
Definition unit_eqb (_ _ : unit) : bool := true.
Lemma unit_eqb_eq : forall a b : unit, unit_eqb a b = true <-> a = b.
Proof. intros [] []; split; reflexivity. Qed.

Definition cex_f (_ _ : unit) : bool := true.
Definition cex_cache : cache unit unit bool := [(tt, tt, true); (tt, tt, false)].
Definition cex_keep (e : unit * unit * bool) : bool := negb (snd e).

Lemma cex_cache_inv : CacheInv unit unit bool unit_eqb unit_eqb cex_f cex_cache.
Proof. intros [] [] v H. simpl in H. inversion H. reflexivity. Qed.

Lemma C17_inv_evict_refuted :
  ~ (forall (table key value : Type) (table_eqb : table -> table -> bool) (key_eqb : key -> key -> bool),
       (forall a b, table_eqb a b = true <-> a = b) ->
       (forall a b, key_eqb a b = true <-> a = b) ->
       forall f : table -> key -> value,
         C17_inv_evict_stmt table key value table_eqb key_eqb f).
Proof.
  intro H.
  specialize (H unit unit bool unit_eqb unit_eqb unit_eqb_eq unit_eqb_eq cex_f cex_keep cex_cache
                cex_cache_inv tt tt false).
  simpl in H. specialize (H eq_refl). discriminate.
Qed.

Lemma C17_cached_refuted :
  ~ (forall (table key value : Type) (table_eqb : table -> table -> bool) (key_eqb : key -> key -> bool),
       (forall a b, table_eqb a b = true <-> a = b) ->
       (forall a b, key_eqb a b = true <-> a = b) ->
       forall f : table -> key -> value,
         C17_cached_stmt table key value table_eqb key_eqb f).
Proof.
  intro H.
  specialize (H unit unit bool unit_eqb unit_eqb unit_eqb_eq unit_eqb_eq cex_f bool
                (fun _ => cex_keep) O (Memo tt tt (fun v => Ret v)) cex_cache cex_cache_inv).
  destruct H as [_ H]. simpl in H. discriminate.
Qed.

Lemma C17_history_refuted :
  ~ (forall (table key value : Type) (table_eqb : table -> table -> bool) (key_eqb : key -> key -> bool),
       (forall a b, table_eqb a b = true <-> a = b) ->
       (forall a b, key_eqb a b = true <-> a = b) ->
       forall f : table -> key -> value,
         C17_history_stmt table key value table_eqb key_eqb f).
Proof.
  intro H.
  specialize (H unit unit bool unit_eqb unit_eqb unit_eqb_eq unit_eqb_eq cex_f bool
                (fun _ => cex_keep) [Memo tt tt (fun v => Ret v)] cex_cache cex_cache_inv).
  destruct H as [_ H]. simpl in H. discriminate.
Qed.

Lemma C17_schedule_refuted :
  ~ (forall (table key value : Type) (table_eqb : table -> table -> bool) (key_eqb : key -> key -> bool),
       (forall a b, table_eqb a b = true <-> a = b) ->
       (forall a b, key_eqb a b = true <-> a = b) ->
       forall f : table -> key -> value,
         C17_schedule_stmt table key value table_eqb key_eqb f).
Proof.
  intro H.
  specialize (H unit unit bool unit_eqb unit_eqb unit_eqb_eq unit_eqb_eq cex_f bool
                (fun _ => cex_keep) [O] O [Memo tt tt (fun v => Ret v)] cex_cache cex_cache_inv).
  destruct H as [_ H]. simpl in H. discriminate.
Qed.
