(** Proofs/FloatC04.v — round(R / 3) in binary64 is the nearest integer to R/3. *)
From CP Require Import Base.Prelude Base.Float64 Model.Sync Spec.FloatSpec Proofs.FloatBase.
From Coq Require Import Reals Lra Lia ZifyBool.
From Flocq Require Import Core.Core IEEE754.BinarySingleNaN.
Open Scope Z_scope.

Lemma C04_threshold_float : C04_threshold_float_stmt.
Proof.
  intros R HR. unfold note_duration_to_ticks, py_truediv_int.
  change (3 =? 0) with false. cbv iota.
  assert (P50 : 2 ^ 50 = 1125899906842624) by reflexivity.
  assert (P53 : 2 ^ 53 = 9007199254740992) by reflexivity.
  assert (HR53 : Z.abs R <= 2 ^ 53) by lia.
  assert (H3 : Z.abs 3 <= 2 ^ 53) by lia.
  replace ((Z.abs R <=? two53) && (Z.abs 3 <=? two53))%bool with true
    by (rewrite two53_eq; symmetry; apply andb_true_intro; split; apply Z.leb_le; assumption).
  cbn [bind].
  destruct (of_Z_exact_le R HR53) as (BR & FR & SR).
  destruct (of_Z_exact_le 3 H3) as (B3 & F3 & S3).
  assert (RR : (1 <= IZR R < 1125899906842624)%R).
  { split; [apply IZR_le; lia | apply IZR_lt; lia]. }
  assert (Hq : (0 < IZR R / 3)%R) by lra.
  destruct (fdiv_correct (of_Z R) (of_Z 3) FR F3) as (Bq & Fq & Sq).
  - rewrite B3. lra.
  - rewrite BR, B3. rewrite Rabs_pos_eq by lra.
    apply Rle_trans with (bpow radix2 53).
    + rewrite <- IZR_pow2 by lia. rewrite P53. lra.
    + apply bpow_le. lia.
  - rewrite BR, B3 in Bq. rewrite SR, S3 in Sq.
    replace (R <? 0) with false in Sq by (symmetry; apply Z.ltb_ge; lia).
    change (3 <? 0) with false in Sq. cbn [xorb] in Sq.
    rewrite (py_round_int_pos _ Fq Sq). f_equal. rewrite Bq.
    apply Znearest_imp.
    (* rounding error *)
    assert (E := RN_error (IZR R / 3)).
    rewrite (Rabs_pos_eq (IZR R / 3)) in E by lra.
    assert (Hlow : (bpow radix2 (-1022) <= IZR R / 3)%R).
    { apply Rle_trans with (bpow radix2 (-2)).
      - apply bpow_le. lia.
      - change (bpow radix2 (-2)) with (/ 4)%R. lra. }
    specialize (E Hlow). apply Rabs_le_inv in E.
    assert (B53 : bpow radix2 (-53) = (/ 9007199254740992)%R) by reflexivity.
    rewrite B53 in E.
    set (N := (2 * R + 3) / 6).
    assert (HN : 3 * N = R \/ 3 * N = R - 1 \/ 3 * N = R + 1).
    { unfold N. assert (M := Z.div_mod (2 * R + 3) 6 ltac:(lia)).
      assert (M' := Z.mod_pos_bound (2 * R + 3) 6 ltac:(lia)).
      assert (M3 := Z.div_mod R 3 ltac:(lia)).
      assert (M3' := Z.mod_pos_bound R 3 ltac:(lia)). lia. }
    assert (HNr : (3 * IZR N = IZR R \/ 3 * IZR N = IZR R - 1 \/ 3 * IZR N = IZR R + 1)%R).
    { destruct HN as [K|[K|K]]; [left|right;left|right;right];
        apply (f_equal IZR) in K; rewrite mult_IZR in K;
        rewrite ?minus_IZR, ?plus_IZR in K; exact K. }
    apply Rabs_def1; destruct HNr as [K|[K|K]]; lra.
Qed.
