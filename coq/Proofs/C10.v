(** Proofs/C10.v — the 24 metadata field recognisers: exact languages, verbatim value capture
    (optional greedy opening quote, lazy value group, optional closing quote), pairwise
    disjointness, order independence and the documented defaults. *)
From CP Require Import Base.Prelude Base.Str Base.Regex Base.Cfg Model.Lines Model.Chart
  Spec.RefRegex Spec.C07 Spec.C10.
From CP Require Import Proofs.RegexShapes.
From Coq Require Import Lia Permutation.
Open Scope Z_scope.
Open Scope string_scope.

(** * Lists *)
Lemma skipn_len_app {A} (a b : list A) : skipn (length a) (a ++ b) = b.
Proof. induction a as [|x a IH]; cbn [length skipn app]; [reflexivity | exact IH]. Qed.

(** Two blank-free words followed by a blank that spell the same text are equal. *)
Lemma no_blank_split (a b x y : str) :
  Forall (fun ch => ch <> 32%N) a -> Forall (fun ch => ch <> 32%N) b ->
  a ++ 32%N :: x = b ++ 32%N :: y -> a = b.
Proof.
  intro Ha. revert b. induction Ha as [|h a Hh Ha IH]; intros b Hb E.
  - destruct b as [|k b]; [reflexivity|]. cbn [app] in E. inversion E; subst.
    inversion Hb; subst. congruence.
  - destruct b as [|k b]; cbn [app] in E; inversion E; subst.
    + congruence.
    + inversion Hb; subst. f_equal. apply IH; assumption.
Qed.

Lemma find_hd_filter {A} (p : A -> bool) l : find p l = hd_error (filter p l).
Proof.
  induction l as [|x l IH]; cbn [find filter]; [reflexivity|].
  destruct (p x); [reflexivity | exact IH].
Qed.

Lemma Permutation_filter_ {A} (p : A -> bool) l l' :
  Permutation l l' -> Permutation (filter p l) (filter p l').
Proof.
  induction 1 as [|x l l' _ IH|x y l|l1 l2 l3 _ IH1 _ IH2]; cbn [filter].
  - constructor.
  - destruct (p x); [constructor|]; exact IH.
  - destruct (p x), (p y); try apply Permutation_refl. apply perm_swap.
  - eapply Permutation_trans; eassumption.
Qed.

(** With at most one hit, [find] does not depend on the order. *)
Lemma find_perm {A} (p : A -> bool) l l' :
  (length (filter p l) <= 1)%nat -> Permutation l l' -> find p l = find p l'.
Proof.
  intros Hlen HP. rewrite !find_hd_filter.
  apply (Permutation_filter_ p) in HP.
  destruct (filter p l) as [|x [|y t]].
  - apply Permutation_nil in HP. rewrite HP. reflexivity.
  - apply Permutation_length_1_inv in HP. rewrite HP. reflexivity.
  - cbn [length] in Hlen. lia.
Qed.

Lemma find_app_skip {A} (p : A -> bool) l1 x l2 :
  p x = false -> find p (l1 ++ x :: l2) = find p (l1 ++ l2).
Proof.
  intro Hx. induction l1 as [|y l1 IH]; cbn [app find].
  - rewrite Hx. reflexivity.
  - destruct (p y); [reflexivity | exact IH].
Qed.

(** * Value classes *)
Definition kcls (k : meta_kind) : cls :=
  match k with MInt => KDigit | MStr => KDot | MPlayer2 => KSet true [(34%N, 34%N)] end.

Lemma meta_value_re_kcls k : meta_value_re k = Chr (kcls k).
Proof. destruct k; reflexivity. Qed.

Lemma kcls_value_ok c k ch : cls_mem (tbl c) (kcls k) ch = true <-> value_char_ok c k ch.
Proof.
  destruct k; cbn [kcls value_char_ok].
  - reflexivity.
  - apply cls_mem_dot.
  - rewrite cls_mem_any_but. unfold QUOTE.
    destruct (N.eqb_spec ch 34%N); cbn [negb]; split; intro H; congruence.
Qed.

Lemma kcls_meta_value_ok c k ch : cls_mem (tbl c) (kcls k) ch = meta_value_ok c k ch.
Proof.
  destruct k; cbn [kcls meta_value_ok].
  - reflexivity.
  - reflexivity.
  - rewrite cls_mem_any_but. reflexivity.
Qed.

Lemma value_ok_meta c k v :
  Forall (value_char_ok c k) v <-> Forall (fun x => meta_value_ok c k x = true) v.
Proof.
  apply Forall_iff. intro x. rewrite <- kcls_value_ok, kcls_meta_value_ok. reflexivity.
Qed.

Lemma S_eq : S_ " = " = [32; 61; 32]%N.
Proof. reflexivity. Qed.

(** * The language of a field recogniser *)
Section MetaLang.
Variable T : tables.
Hypothesis HT : tables_ok T = true.
Notation L := (Lang T).

Lemma Lang_seq_optq l w :
  L (seq (opt (lit1 34%N) :: l)) w <-> exists q b, w = qs q ++ b /\ L (seq l) b.
Proof.
  rewrite Lang_seq_opt. split.
  - intros [H | (a & b & -> & Ha & Hb)].
    + exists false, w. split; [reflexivity | exact H].
    + apply Lang_lit1 in Ha. subst. exists true, b. split; [reflexivity | exact Hb].
  - intros (q & b & -> & Hb). destruct q.
    + right. exists [34%N], b. repeat split; [apply Lang_lit1; reflexivity | exact Hb].
    + left. exact Hb.
Qed.

Lemma Lang_ref_meta name k w :
  L (ref_meta name k) w <->
  exists p1 q1 v q2 p2, w = p1 ++ name ++ S_ " = " ++ qs q1 ++ v ++ qs q2 ++ p2 /\
    Forall (fun x => is_ws T x = true) p1 /\ Forall (fun x => is_ws T x = true) p2 /\
    v <> [] /\ Forall (fun x => cls_mem T (kcls k) x = true) v.
Proof.
  unfold ref_meta. rewrite meta_value_re_kcls.
  change ([Star ws] ++ lits name ++ Ls " = " ++
          [opt (lit1 34%N); plus (Chr (kcls k)); opt (lit1 34%N); Star ws; eol])
    with (Star ws :: (lits name ++ Ls " = " ++
          [opt (lit1 34%N); plus (Chr (kcls k)); opt (lit1 34%N); Star ws; eol])).
  rewrite Lang_seq_star_ws. split.
  - intros (p1 & b & -> & Hp1 & Hb).
    apply Lang_seq_lits in Hb as (b1 & -> & Hb).
    apply Lang_seq_Ls in Hb as (b2 & -> & Hb).
    apply Lang_seq_optq in Hb as (q1 & b3 & -> & Hb).
    apply Lang_seq_plus_cls in Hb as (v & b4 & -> & Hne & Hv & Hb).
    apply Lang_seq_optq in Hb as (q2 & p2 & -> & Hb).
    apply (Lang_ws_eol T p2 (ws_LF T HT)) in Hb.
    exists p1, q1, v, q2, p2. repeat split; assumption.
  - intros (p1 & q1 & v & q2 & p2 & -> & Hp1 & Hp2 & Hne & Hv).
    exists p1, (name ++ S_ " = " ++ qs q1 ++ v ++ qs q2 ++ p2). repeat split; [exact Hp1|].
    apply Lang_seq_lits. eexists; split; [reflexivity|].
    apply Lang_seq_Ls. eexists; split; [reflexivity|].
    apply Lang_seq_optq. exists q1. eexists; split; [reflexivity|].
    apply Lang_seq_plus_cls. exists v. eexists; repeat split; [exact Hne | exact Hv |].
    apply Lang_seq_optq. exists q2. eexists; split; [reflexivity|].
    apply (Lang_ws_eol T p2 (ws_LF T HT)). exact Hp2.
Qed.

End MetaLang.

Section Main.
Variable c : cfg.
Notation T := (tbl c).
Notation wsp := (Forall (fun x => is_ws T x = true)).

(** * C10_only *)
Lemma accepts_iff f s :
  cfg_ok_meta c = true -> In f (meta_fields c) ->
  (accepts c f s = true <->
   exists p1 q1 v q2 p2, s = p1 ++ mf_pascal f ++ S_ " = " ++ qs q1 ++ v ++ qs q2 ++ p2 /\
     wsp p1 /\ wsp p2 /\ v <> [] /\ Forall (fun x => cls_mem T (kcls (mf_kind f)) x = true) v).
Proof.
  intros Hok Hf. destruct (cfg_ok_meta_inv c Hok) as (HT & Hfs & _).
  destruct (Hfs f Hf) as (Hre & _ & _).
  unfold accepts. rewrite matchb_correct, Hre. apply (Lang_ref_meta T HT).
Qed.

Lemma C10_only : C10_only_stmt c.
Proof.
  intros Hok f Hf s. rewrite (accepts_iff f s Hok Hf). split.
  - intros (p1 & q1 & v & q2 & p2 & -> & Hp1 & Hp2 & Hne & Hv).
    exists q1, v, q2. split; [|split; [exact Hne|]].
    + exists p1, p2. repeat split; assumption.
    + revert Hv. apply Forall_impl. intro a. apply kcls_value_ok.
  - intros (q1 & v & q2 & (p1 & p2 & Hp1 & Hp2 & ->) & Hne & Hv).
    exists p1, q1, v, q2, p2. repeat split; try assumption.
    revert Hv. apply Forall_impl. intro a. apply kcls_value_ok.
Qed.

(** * The remainder predicate: optional quote, then white space only *)
Lemma quote_not_ws : tables_ok T = true -> is_ws T QUOTE = false.
Proof. intro HT. apply (ascii_not_ws T HT). unfold QUOTE. lia. Qed.

Lemma quote_not_digit : tables_ok T = true -> is_digit T QUOTE = false.
Proof. intro HT. apply (ascii_not_digit T HT). unfold QUOTE. lia. Qed.

Lemma rem_opt_qs q p2 : wsp p2 -> rem_optquote_ws c (qs q ++ p2) = true.
Proof.
  intro H. unfold rem_optquote_ws. apply orb_true_iff. destruct q; cbn [qs app].
  - left. apply rem_quote_ws_iff. exists p2. auto.
  - right. apply all_ws_iff. exact H.
Qed.

(** A remainder which still holds a quote after its first character is refused. *)
Lemma rem_opt_inner_quote v2 p2 :
  tables_ok T = true -> v2 <> [] -> rem_optquote_ws c (v2 ++ QUOTE :: p2) = false.
Proof.
  intros HT Hne. unfold rem_optquote_ws. apply orb_false_iff. split.
  - destruct v2 as [|x v2]; [congruence|]. cbn [app rem_quote_ws].
    rewrite (all_ws_false_in c (v2 ++ QUOTE :: p2) QUOTE).
    + apply andb_false_r.
    + apply in_or_app. right. left. reflexivity.
    + apply quote_not_ws; exact HT.
  - apply (all_ws_false_in c _ QUOTE).
    + apply in_or_app. right. left. reflexivity.
    + apply quote_not_ws; exact HT.
Qed.

(** A remainder starting with a character that is neither the quote nor white space is refused. *)
Lemma rem_opt_head x l : x <> QUOTE -> is_ws T x = false -> rem_optquote_ws c (x :: l) = false.
Proof.
  intros Hq Hw. unfold rem_optquote_ws. apply orb_false_iff. split.
  - cbn [rem_quote_ws]. destruct (N.eqb_spec x QUOTE); [contradiction | reflexivity].
  - apply (all_ws_false_in c _ x); [left; reflexivity | exact Hw].
Qed.

(** * The capture, in general *)
Lemma capture_gen f p1 q1 v r :
  mf_pascal f <> [] -> Forall (fun ch => is_ws T ch = false /\ ch <> 32%N) (mf_pascal f) ->
  wsp p1 -> v <> [] -> Forall (fun x => meta_value_ok c (mf_kind f) x = true) v ->
  rem_optquote_ws c r = true ->
  (forall v1 v2, v = v1 ++ v2 -> v2 <> [] -> rem_optquote_ws c (v2 ++ r) = false) ->
  (q1 = false -> forall x v', v = x :: v' -> x <> QUOTE) ->
  meta_capture c f (p1 ++ mf_pascal f ++ S_ " = " ++ qs q1 ++ v ++ r) = Some v.
Proof.
  intros Hne Hnm Hp1 Hvne Hv Hr Hin Hq.
  assert (Htry : lazy_prefix (meta_value_ok c (mf_kind f)) 1 (rem_optquote_ws c) (v ++ r) = Some (v, r)).
  { apply lazy_prefix_intro; [exact Hv | | exact Hr |].
    - destruct v; [congruence | cbn [length]; lia].
    - intros v1 v2 E Hne2 _. exact (Hin v1 v2 E Hne2). }
  unfold meta_capture. cbv zeta.
  rewrite dropwhile_app; [| exact Hp1 |].
  2:{ destruct (mf_pascal f) as [|a nm]; [congruence|]. inversion Hnm; subst.
      cbn [app]. apply H1. }
  replace (length (mf_pascal f) + 3)%nat with (length (mf_pascal f ++ S_ " = "))
    by (rewrite app_length; reflexivity).
  rewrite (app_assoc (mf_pascal f)), skipn_len_app.
  destruct q1; cbn [qs app].
  - rewrite N.eqb_refl, Htry. reflexivity.
  - destruct v as [|x v']; [congruence|]. cbn [app].
    destruct (N.eqb_spec x QUOTE) as [E|E]; [exfalso; exact (Hq eq_refl x v' eq_refl E)|].
    change (x :: v' ++ r) with ((x :: v') ++ r). rewrite Htry. reflexivity.
Qed.

(** * C10_str_verbatim *)
Lemma C10_str_verbatim : C10_str_verbatim_stmt c.
Proof.
  intros Hok f Hf Hk s v Hs Hne Hv.
  destruct (cfg_ok_meta_inv c Hok) as (HT & Hfs & _).
  destruct (Hfs f Hf) as (_ & Hnne & Hnm).
  split; [|split].
  - apply (C10_only Hok f Hf). exists true, v, true. repeat split; [exact Hs | exact Hne |].
    rewrite Hk. exact Hv.
  - destruct Hs as (p1 & p2 & Hp1 & Hp2 & ->).
    apply capture_gen; try assumption.
    + apply value_ok_meta. rewrite Hk. exact Hv.
    + apply rem_opt_qs; exact Hp2.
    + intros v1 v2 _ Hne2. cbn [qs app]. apply rem_opt_inner_quote; assumption.
    + discriminate.
  - unfold meta_process. rewrite Hk. reflexivity.
Qed.

(** * C10_int *)
Lemma C10_int : C10_int_stmt c.
Proof.
  intros Hok f Hf Hk s ds q1 q2 Hs [Hne Hd] Hshort.
  destruct (cfg_ok_meta_inv c Hok) as (HT & Hfs & _).
  destruct (Hfs f Hf) as (_ & Hnne & Hnm).
  split; [|split].
  - apply (C10_only Hok f Hf). exists q1, ds, q2. repeat split; [exact Hs | exact Hne |].
    rewrite Hk. exact Hd.
  - destruct Hs as (p1 & p2 & Hp1 & Hp2 & ->).
    apply capture_gen; try assumption.
    + rewrite Hk. exact Hd.
    + apply rem_opt_qs; exact Hp2.
    + intros v1 v2 E Hne2. destruct v2 as [|x v2]; [congruence|]. cbn [app].
      assert (Hx : is_digit T x = true).
      { rewrite E in Hd. apply Forall_app in Hd as [_ Hd]. inversion Hd; assumption. }
      apply rem_opt_head.
      * intro Eq. subst x. rewrite (quote_not_digit HT) in Hx. discriminate.
      * apply (digit_not_ws T HT); exact Hx.
    + intros _ x v' E Eq. subst. inversion Hd; subst.
      rewrite (quote_not_digit HT) in H1. discriminate.
  - unfold meta_process. rewrite Hk. rewrite py_int_short by exact Hshort. reflexivity.
Qed.

(** * C10_player2 *)
Lemma C10_player2 : C10_player2_stmt c.
Proof.
  intros Hok f Hf Hk v.
  destruct (cfg_ok_meta_inv c Hok) as (_ & _ & _ & _ & Hp2).
  unfold meta_process. rewrite Hk, Hp2. cbn [existsb]. rewrite orb_false_r. split.
  - intros [-> | ->]; reflexivity.
  - intros H1 H2.
    destruct (str_eqb v (of_string "bass")) eqn:E1; [apply str_eqb_eq in E1; contradiction|].
    destruct (str_eqb v (of_string "rhythm")) eqn:E2; [apply str_eqb_eq in E2; contradiction|].
    reflexivity.
Qed.

Lemma C10_player2_capture : C10_player2_capture_stmt c.
Proof.
  intros Hok f Hf Hk s v q Hs Hne Hv Hq.
  destruct (cfg_ok_meta_inv c Hok) as (HT & Hfs & _).
  destruct (Hfs f Hf) as (_ & Hnne & Hnm).
  split.
  - apply (C10_only Hok f Hf). exists q, v, q. repeat split; [exact Hs | exact Hne |].
    rewrite Hk. exact Hv.
  - destruct Hs as (p1 & p2 & Hp1 & Hp2 & ->).
    apply capture_gen; try assumption.
    + apply value_ok_meta. rewrite Hk. exact Hv.
    + apply rem_opt_qs; exact Hp2.
    + intros v1 v2 E Hne2. destruct q; cbn [qs app].
      * apply rem_opt_inner_quote; assumption.
      * destruct v2 as [|x v2]; [congruence|]. cbn [app].
        rewrite E in Hv. apply Forall_app in Hv as [_ Hv]. inversion Hv; subst.
        specialize (Hq eq_refl). apply Forall_app in Hq as [_ Hq]. inversion Hq; subst.
        apply rem_opt_head; assumption.
    + intros _ x v' E. subst. inversion Hv; assumption.
Qed.

(** * C10_disjoint *)
Lemma C10_disjoint : C10_disjoint_stmt c.
Proof.
  intros Hok f1 f2 Hf1 Hf2 Hdiff s [H1 H2].
  destruct (cfg_ok_meta_inv c Hok) as (HT & Hfs & _).
  destruct (Hfs f1 Hf1) as (_ & Hne1 & Hnm1). destruct (Hfs f2 Hf2) as (_ & Hne2 & Hnm2).
  apply (accepts_iff f1 s Hok Hf1) in H1 as (p1 & q1 & v & q2 & p2 & -> & Hp1 & _).
  apply (accepts_iff f2 _ Hok Hf2) in H2 as (p1' & q1' & v' & q2' & p2' & E & Hp1' & _).
  assert (Hhf : forall f r, mf_pascal f <> [] ->
             Forall (fun ch => is_ws T ch = false /\ ch <> 32%N) (mf_pascal f) ->
             head_fails (is_ws T) (mf_pascal f ++ r)).
  { intros f r Hne Hnm. destruct (mf_pascal f) as [|a nm]; [congruence|]. inversion Hnm; subst.
    cbn [app]. apply H1. }
  destruct (span_unique (is_ws T) _ _ _ _ Hp1 (Hhf f1 _ Hne1 Hnm1) Hp1' (Hhf f2 _ Hne2 Hnm2) E)
    as [_ E2].
  rewrite S_eq in E2. cbn [app] in E2. apply Hdiff.
  eapply no_blank_split; [| | exact E2].
  - revert Hnm1. apply Forall_impl. intros a [_ H]. exact H.
  - revert Hnm2. apply Forall_impl. intros a [_ H]. exact H.
Qed.

(** * C10_field, C10_foreign_line *)
Lemma meta_find_find f lines : meta_find c f lines = find (accepts c f) lines.
Proof.
  induction lines as [|l ls IH]; cbn [meta_find find]; [reflexivity|].
  unfold accepts at 1. destruct (matchb T (mf_re f) l); [reflexivity | exact IH].
Qed.

Lemma C10_field : C10_field_stmt c.
Proof.
  intros f lines. unfold meta_field_value, decode_line. rewrite meta_find_find. reflexivity.
Qed.

Lemma C10_foreign_line : C10_foreign_line_stmt c.
Proof.
  intros f l1 l l2 H. rewrite !C10_field. rewrite (find_app_skip (accepts c f) l1 l l2 H).
  reflexivity.
Qed.

(** * C10_perm *)
Lemma parse_fields_ext fs lines lines' :
  (forall f, In f fs -> find (accepts c f) lines = find (accepts c f) lines') ->
  meta_parse_fields c fs lines = meta_parse_fields c fs lines'.
Proof.
  induction fs as [|f fs IH]; intro H; cbn [meta_parse_fields]; [reflexivity|].
  rewrite !C10_field, (H f (or_introl eq_refl)), IH; [reflexivity|].
  intros g Hg. apply H. right; exact Hg.
Qed.

Lemma C10_perm : C10_perm_stmt c.
Proof.
  intros lines lines' Hone HP. unfold meta_parse. apply parse_fields_ext.
  intros f Hf. apply find_perm; [apply Hone; exact Hf | exact HP].
Qed.

(** * The documented table *)
Lemma mv_eqb_eq a b : mv_eqb a b = true -> a = b.
Proof.
  destruct a, b; cbn [mv_eqb]; intro H; try discriminate; try reflexivity.
  - apply Z.eqb_eq in H. congruence.
  - apply str_eqb_eq in H. congruence.
  - apply str_eqb_eq in H. congruence.
Qed.

Lemma fmd_inv f n p k r dv :
  field_matches_doc f (n, p, k, r, dv) = true ->
  mf_name f = of_string n /\ mf_pascal f = of_string p /\ mf_kind f = k /\ mf_required f = r /\
  (r = false -> mf_default f = dv).
Proof.
  unfold field_matches_doc. rewrite !andb_true_iff.
  intros [[[[H1 H2] H3] H4] H5].
  apply str_eqb_eq in H1, H2. apply Bool.eqb_prop in H4.
  repeat split; try assumption.
  - destruct (mf_kind f), k; cbn in H3; congruence.
  - intros ->. cbn [orb] in H5. apply mv_eqb_eq; exact H5.
Qed.

Lemma forall2b_In_r {A B} (p : A -> B -> bool) fs ds d :
  forall2b p fs ds = true -> In d ds -> exists f, In f fs /\ p f d = true.
Proof.
  revert ds. induction fs as [|f fs IH]; intros [|e ds]; cbn [forall2b]; try discriminate.
  - intros _ [].
  - intros H Hin. apply andb_true_iff in H as [H1 H2]. destruct Hin as [->|Hin].
    + exists f. split; [left; reflexivity | exact H1].
    + destruct (IH ds H2 Hin) as (g & Hg & Hp). exists g. split; [right; exact Hg | exact Hp].
Qed.

Lemma cfg_ok_C10_inv :
  cfg_ok_C10 c = true ->
  cfg_ok_meta c = true /\ forall2b field_matches_doc (meta_fields c) doc_table = true.
Proof.
  unfold cfg_ok_C10, C10_items, items_ok. rewrite forallb_app, andb_true_iff.
  intros [H1 H2]. split; [exact H1|]. cbn [forallb snd] in H2.
  apply andb_true_iff in H2 as [H2 _]. exact H2.
Qed.

(** Every looked-up field is listed under its attribute name with its decoded value. *)
Lemma parse_fields_assoc lines fs m f :
  nodup_str (map mf_name fs) = true -> meta_parse_fields c fs lines = Ok m -> In f fs ->
  exists v, meta_field_value c f lines = Ok v /\ assoc (mf_name f) m = Some v.
Proof.
  revert m. induction fs as [|g fs IH]; intros m Hnd Hm Hin; [destruct Hin|].
  cbn [map nodup_str] in Hnd. apply andb_true_iff in Hnd as [Hg Hnd]. apply negb_true_iff in Hg.
  cbn [meta_parse_fields] in Hm.
  apply bind_ok in Hm as (v & Hv & Hm). apply bind_ok in Hm as (rest & Hrest & Hm).
  inversion Hm; subst m. cbn [assoc].
  destruct Hin as [->|Hin].
  - exists v. split; [exact Hv|].
    rewrite (proj2 (str_eqb_eq (mf_name f) (mf_name f)) eq_refl). reflexivity.
  - destruct (str_eqb (mf_name f) (mf_name g)) eqn:E.
    + exfalso. apply str_eqb_eq in E.
      assert (Hex : existsb (str_eqb (mf_name g)) (map mf_name fs) = true).
      { apply existsb_exists. exists (mf_name f). split; [apply in_map; exact Hin|].
        apply str_eqb_eq. symmetry; exact E. }
      congruence.
    + apply IH; assumption.
Qed.

Lemma C10_defaults : C10_defaults_stmt c.
Proof.
  intros Hok lines m Hm n p k r dv Hin -> Hnone.
  destruct (cfg_ok_C10_inv Hok) as [Hmeta H2b].
  destruct (cfg_ok_meta_inv c Hmeta) as (_ & _ & _ & Hnd & _).
  destruct (forall2b_In_r _ _ _ _ H2b Hin) as (f & Hf & Hfm).
  apply fmd_inv in Hfm as (Hn & Hp & _ & Hr & Hd).
  destruct (parse_fields_assoc lines _ m f Hnd Hm Hf) as (v & Hv & Ha).
  rewrite C10_field, (Hnone f Hf Hp), Hr in Hv. inversion Hv; subst v.
  rewrite <- Hn, Ha, (Hd eq_refl). reflexivity.
Qed.

Lemma C10_required : C10_required_stmt c.
Proof.
  intros Hok lines Hnone.
  destruct (cfg_ok_C10_inv Hok) as [_ H2b].
  unfold meta_parse. revert H2b Hnone.
  destruct (meta_fields c) as [|f fs]; unfold doc_table; cbn [forall2b]; [discriminate|].
  intros H2b Hnone. apply andb_true_iff in H2b as [Hfm _].
  apply fmd_inv in Hfm as (_ & Hp & _ & Hr & _).
  cbn [meta_parse_fields]. rewrite C10_field, (Hnone f (or_introl eq_refl) Hp), Hr. reflexivity.
Qed.

Lemma parse_fields_shape lines fs ds m :
  forall2b field_matches_doc fs ds = true -> meta_parse_fields c fs lines = Ok m ->
  map fst m = map (fun d => of_string (fst (fst (fst (fst d))))) ds.
Proof.
  revert ds m. induction fs as [|f fs IH]; intros [|d ds] m; cbn [forall2b]; try discriminate.
  - intros _ Hm. cbn [meta_parse_fields] in Hm. inversion Hm. reflexivity.
  - intros H Hm. apply andb_true_iff in H as [H1 H2].
    cbn [meta_parse_fields] in Hm.
    apply bind_ok in Hm as (v & Hv & Hm). apply bind_ok in Hm as (rest & Hrest & Hm).
    inversion Hm; subst m. cbn [map fst]. rewrite (IH ds rest H2 Hrest).
    destruct d as [[[[n p] k] r] dv]. apply fmd_inv in H1 as (Hn & _). rewrite Hn. reflexivity.
Qed.

Lemma C10_shape : C10_shape_stmt c.
Proof.
  intros Hok lines m Hm. destruct (cfg_ok_C10_inv Hok) as [_ H2b].
  exact (parse_fields_shape lines _ _ m H2b Hm).
Qed.

End Main.
