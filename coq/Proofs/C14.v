(** Proofs/C14.v — conservation, locality and order-independence of the line dispatcher. *)
From CP Require Import Base.Prelude Base.Str Base.Regex Base.Cfg Model.Lines Spec.C14 Proofs.C02.
From Coq Require Import Permutation.
Open Scope Z_scope.

Lemma try_kinds_ok c order l o : try_kinds c order l = Ok o -> outcome_ok c order l o.
Proof.
  induction order as [|k ks IH]; cbn [try_kinds]; intro H.
  - inversion H; subst. split; [reflexivity|constructor].
  - destruct (dec c k l) as [d|e] eqn:Ed.
    + inversion H; subst. split; [left; reflexivity|exact Ed].
    + destruct e; try discriminate. specialize (IH H).
      destruct o as [k' d'|l']; cbn in *.
      * destruct IH as [Hin Hd]. split; [right; exact Hin|exact Hd].
      * destruct IH as [-> Hr]. split; [reflexivity|constructor; assumption].
Qed.

Lemma C14_conservation : C14_conservation_stmt.
Proof.
  intros c order lines. unfold dispatch. induction lines as [|l ls IH]; intros outs H; cbn [mapM] in H.
  - inversion H; constructor.
  - apply bind_ok in H as (o & Ho & H). apply bind_ok in H as (os & Hos & H). inversion H; subst.
    constructor; [apply try_kinds_ok; exact Ho|apply IH; exact Hos].
Qed.

Lemma dispatch_length c order lines outs : dispatch c order lines = Ok outs -> length outs = length lines.
Proof.
  intro H. apply C14_conservation in H. induction H; cbn; congruence.
Qed.

Lemma C14_count : C14_count_stmt.
Proof.
  intros c order lines outs H. rewrite <- (dispatch_length _ _ _ _ H). clear H.
  induction outs as [|o os IH]; [reflexivity|].
  unfold all_data, warnings_of in *. cbn [flat_map]. rewrite !app_length. destruct o; cbn [length]; lia.
Qed.

Lemma try_kinds_rejected c order j : rejected_by_all c order j -> try_kinds c order j = Ok (Unparsable j).
Proof. induction 1 as [|k ks Hk _ IH]; cbn [try_kinds]; [reflexivity|rewrite Hk; exact IH]. Qed.

Lemma C14_append : C14_append_stmt.
Proof. intros c order l1 l2. apply dispatch_app. Qed.

Lemma C14_local : C14_local_stmt.
Proof.
  intros c order l1 j l2 Hj. rewrite dispatch_app.
  destruct (dispatch c order l1) as [o1|e]; cbn [bind]; [|reflexivity].
  unfold dispatch at 1. cbn [mapM]. rewrite (try_kinds_rejected _ _ _ Hj). cbn [bind].
  fold (dispatch c order l2). destruct (dispatch c order l2); reflexivity.
Qed.

Lemma warnings_app a b : warnings_of (a ++ b) = warnings_of a ++ warnings_of b.
Proof. unfold warnings_of. apply flat_map_app. Qed.

Lemma C14_data_unchanged : C14_data_unchanged_stmt.
Proof.
  intros c order l1 j l2 outs outs' Hj H1 H2. rewrite C14_local in H1 by exact Hj. rewrite dispatch_app in H2.
  destruct (dispatch c order l1) as [o1|]; cbn [bind] in *; [|discriminate].
  destruct (dispatch c order l2) as [o2|]; cbn [bind] in *; [|discriminate].
  inversion H1; inversion H2; subst. split.
  - intro k. rewrite !data_of_app. f_equal.
  - rewrite !warnings_app, !app_length. change (Unparsable j :: o2) with ([Unparsable j] ++ o2). rewrite warnings_app, app_length.
    change (length (warnings_of [Unparsable j])) with 1%nat. lia.
Qed.

(** *** Order independence *)
Definition accepts c k l := matchb (tbl c) (re_of_kind c k) l.

Lemma py_int_err T s e : py_int T s = Err e -> e = EValue.
Proof. unfold py_int. destruct (Nat.ltb _ _); intro H; inversion H; reflexivity. Qed.

Lemma extract_not_rnm c k l : extract c k l <> Err ERegexNotMatch.
Proof.
  unfold extract. destruct (head_tick c l) as [t rest].
  destruct (py_int (tbl c) t) as [tick|e] eqn:Et; cbn [bind].
  2:{ apply py_int_err in Et; subst; discriminate. }
  destruct k; try discriminate.
  - destruct (span _ _) as [ll r]. destruct (py_int (tbl c) ll) as [s|e] eqn:E; cbn [bind].
    + destruct (existsb _ _); discriminate.
    + apply py_int_err in E; subst; discriminate.
  - destruct (span _ _) as [ll r]. destruct (py_int (tbl c) ll) as [s|e] eqn:E; cbn [bind]; [discriminate|].
    apply py_int_err in E; subst; discriminate.
  - destruct (span _ _) as [raw r]. discriminate.
  - destruct (span _ _) as [u r]. destruct (py_int (tbl c) u) as [up|e] eqn:E; cbn [bind].
    2:{ apply py_int_err in E; subst; discriminate. }
    destruct r as [|sp r']; [discriminate|]. destruct (span _ r') as [ll r''].
    destruct (_ && _ && _); [|discriminate].
    destruct (py_int (tbl c) ll) as [lo|e] eqn:E2; cbn [bind]; [discriminate|].
    apply py_int_err in E2; subst; discriminate.
  - destruct (span _ _) as [u r]. destruct (py_int (tbl c) u) as [us|e] eqn:E; cbn [bind]; [discriminate|].
    apply py_int_err in E; subst; discriminate.
Qed.

Lemma dec_rnm_iff c k l : dec c k l = Err ERegexNotMatch <-> accepts c k l = false.
Proof.
  unfold dec, accepts. destruct (matchb _ _ l); split; intro H; try reflexivity; try discriminate.
  exfalso. exact (extract_not_rnm _ _ _ H).
Qed.

Definition claim c k l : result line_outcome :=
  match dec c k l with Ok d => Ok (Claimed k d) | Err e => Err e end.

Lemma try_kinds_none c order l :
  (forall k, In k order -> accepts c k l = false) -> try_kinds c order l = Ok (Unparsable l).
Proof.
  intro H. apply try_kinds_rejected. apply Forall_forall. intros k Hk. apply dec_rnm_iff, H, Hk.
Qed.

Lemma try_kinds_one c order l k :
  In k order -> accepts c k l = true ->
  (forall k', In k' order -> k' <> k -> accepts c k' l = false) ->
  try_kinds c order l = claim c k l.
Proof.
  induction order as [|k0 ks IH]; intros Hin Hacc Hoth; [destruct Hin|].
  cbn [try_kinds]. destruct (kind_eqb k0 k) eqn:Ek.
  - apply kind_eqb_eq in Ek; subst k0. unfold claim.
    destruct (dec c k l) as [d|e] eqn:Ed; [reflexivity|].
    destruct e; try reflexivity. apply dec_rnm_iff in Ed. congruence.
  - assert (Hne : k0 <> k) by (intro; subst; rewrite (proj2 (kind_eqb_eq k k) eq_refl) in Ek; discriminate).
    assert (Hrej : dec c k0 l = Err ERegexNotMatch).
    { apply dec_rnm_iff. apply Hoth; [left; reflexivity|exact Hne]. }
    rewrite Hrej. apply IH.
    + destruct Hin as [->|Hin]; [congruence|exact Hin].
    + exact Hacc.
    + intros k' Hk' Hn. apply Hoth; [right; exact Hk'|exact Hn].
Qed.

Lemma exists_accepting c order l :
  (exists k, In k order /\ accepts c k l = true) \/ (forall k, In k order -> accepts c k l = false).
Proof.
  induction order as [|k ks [(k' & Hin & Ha)|Hnone]].
  - right. intros k [].
  - left. exists k'. split; [right; exact Hin|exact Ha].
  - destruct (accepts c k l) eqn:E.
    + left. exists k. split; [left; reflexivity|exact E].
    + right. intros k' [<-|Hk']; [exact E|apply Hnone; exact Hk'].
Qed.

Lemma try_kinds_perm c order order' l :
  disjoint_kinds c order -> Permutation order order' -> try_kinds c order l = try_kinds c order' l.
Proof.
  intros Hd Hp.
  destruct (exists_accepting c order l) as [(k & Hin & Ha)|Hnone].
  - assert (Hoth : forall k', In k' order -> k' <> k -> accepts c k' l = false).
    { intros k' Hk' Hne. destruct (accepts c k' l) eqn:E; [|reflexivity].
      exfalso. apply (Hd l k' k Hk' Hin Hne). split; assumption. }
    rewrite (try_kinds_one c order l k Hin Ha Hoth).
    symmetry. apply try_kinds_one.
    + eapply Permutation_in; eassumption.
    + exact Ha.
    + intros k' Hk' Hne. apply Hoth; [|exact Hne]. eapply Permutation_in; [apply Permutation_sym; exact Hp|exact Hk'].
  - rewrite (try_kinds_none _ _ _ Hnone). symmetry. apply try_kinds_none.
    intros k Hk. apply Hnone. eapply Permutation_in; [apply Permutation_sym; exact Hp|exact Hk].
Qed.

Lemma C14_order_indep : C14_order_indep_stmt.
Proof.
  intros c order order' lines Hd Hp. unfold dispatch.
  induction lines as [|l ls IH]; cbn [mapM]; [reflexivity|].
  rewrite (try_kinds_perm c order order' l Hd Hp), IH. reflexivity.
Qed.
