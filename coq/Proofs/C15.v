(** Proofs/C15.v — Untrustworthy tempo data is rejected loudly, never turned into times. *)
From CP Require Import Base.Prelude Base.Str Base.Regex Base.Cfg Base.Float64 Base.Timedelta
  Model.Lines Model.Sync Spec.FloatSpec Spec.C11 Spec.C15 Proofs.C11 Proofs.FloatBase.
From Coq Require Import Sorted Reals Lra Lia ZifyBool.
From Flocq Require Import Core.Core IEEE754.BinarySingleNaN.
Open Scope Z_scope.

(** * C15_never_ok *)

Lemma C15_never_ok : C15_never_ok_stmt.
Proof.
  unfold C15_never_ok_stmt. intros T datas res Hu B HB.
  pose proof (C11_built_wf T datas res B HB) as [[Hs [e0 [rest [He0 Ht0]]]] HR].
  apply build_bpm_events_ok_inv in HB. destruct HB as [es [Hl Hm]].
  apply build_bpm_list_ok in Hl. destruct Hl as [_ [_ [Hmap _]]].
  apply mk_bpm_events_ok_inv in Hm. destruct Hm as [HR' [Hev [Hres _]]].
  rewrite Hev in *. rewrite Hres in HR.
  destruct Hu as [Hu | [Hu | [Hu | Hu]]].
  - lia.
  - subst datas. rewrite He0 in Hmap. discriminate Hmap.
  - destruct Hu as [d [rest' [Ed Hd]]]. subst datas. rewrite He0 in Hmap. simpl in Hmap.
    inversion Hmap. lia.
  - apply Hu. rewrite <- Hmap. exact Hs.
Qed.

(** * C15_ts *)

Lemma C15_ts : C15_ts_stmt.
Proof.
  unfold C15_ts_stmt, sync_from_lines. intros c res lines st ws H.
  apply bind_ok in H. destruct H as [outs [_ H]].
  apply bind_ok in H. destruct H as [B [_ H]].
  apply bind_ok in H. destruct H as [tms [_ H]].
  apply bind_ok in H. destruct H as [anchors [_ H]].
  match type of H with match ?l with _ => _ end = _ => destruct l as [|t0 rest] eqn:El end;
    [discriminate H|].
  destruct (t_tick (ts_at t0) =? 0) eqn:E0; [|discriminate H].
  apply Z.eqb_eq in E0. inversion H; subst st ws. simpl.
  exists t0, rest. split; [reflexivity | exact E0].
Qed.

(** * C15_query *)

Lemma seconds_ok_checks dt b res s :
  seconds dt b res = Ok s -> 0 <= dt /\ f_le b fzero = false /\ 0 < res.
Proof.
  unfold seconds. intro H.
  destruct (dt <? 0) eqn:E1; [discriminate H|].
  destruct (f_le b fzero) eqn:E2; [discriminate H|].
  destruct (res <=? 0) eqn:E3; [discriminate H|].
  apply Z.ltb_ge in E1. apply Z.leb_gt in E3. auto.
Qed.

(** The forward scan stops at an event whose tick is at most [t], provided the first one is. *)
Lemma scan_from_le l : forall idx t first rest,
  l = first :: rest -> b_tick first <= t ->
  exists k p, scan_from l idx t = idx + Z.of_nat k /\ nth_error l k = Some p /\ b_tick p <= t.
Proof.
  induction l as [|x l IH]; intros idx t first rest El Hle; [discriminate El|].
  inversion El; subst x l. clear El.
  destruct rest as [|nxt r'].
  - exists 0%nat, first. simpl. split; [lia|]. auto.
  - change (scan_from (first :: nxt :: r') idx t)
      with (if t <? b_tick nxt then idx else scan_from (nxt :: r') (idx + 1) t).
    destruct (t <? b_tick nxt) eqn:E.
    + exists 0%nat, first. simpl. split; [lia|]. auto.
    + apply Z.ltb_ge in E.
      destruct (IH (idx + 1) t nxt r' eq_refl E) as [k [p [Hk [Hn Hp]]]].
      exists (S k), p. split; [rewrite Hk; lia|]. split; [exact Hn | exact Hp].
Qed.

Lemma nth_error_skipn {A} (l : list A) : forall n k,
  nth_error (skipn n l) k = nth_error l (n + k).
Proof.
  induction l as [|x l IH]; intros n k.
  - rewrite skipn_nil. destruct k, n; reflexivity.
  - destruct n; [reflexivity|]. simpl. apply IH.
Qed.

Lemma index_of_proximal_ok_le es t h idx :
  index_of_proximal es t h = Ok idx ->
  exists p, nth_Z es idx = Some p /\ b_tick p <= t.
Proof.
  unfold index_of_proximal. intro H.
  destruct (h <? 0) eqn:Eh; [discriminate H|]. apply Z.ltb_ge in Eh.
  destruct (Zlength_ es - 1 <? h) eqn:El; [discriminate H|].
  destruct (skipn (Z.to_nat h) es) as [|first rest] eqn:Esk; [discriminate H|].
  destruct (t <? b_tick first) eqn:Et; [discriminate H|]. apply Z.ltb_ge in Et.
  assert (Hidx : scan_from (first :: rest) h t = idx) by (injection H; auto). clear H.
  destruct (scan_from_le (first :: rest) h t first rest eq_refl Et) as [k [p [Hk [Hn Hp]]]].
  exists p. split; [|exact Hp].
  rewrite <- Hidx, Hk. unfold nth_Z.
  destruct (h + Z.of_nat k <? 0) eqn:E; [apply Z.ltb_lt in E; lia|].
  rewrite <- Esk in Hn. rewrite nth_error_skipn in Hn.
  replace (Z.to_nat (h + Z.of_nat k)) with (Z.to_nat h + k)%nat by lia. exact Hn.
Qed.

Lemma C15_query : C15_query_stmt.
Proof.
  unfold C15_query_stmt. intros B t h ts idx H.
  apply timestamp_at_tick_ok_inv in H.
  destruct H as [Hi [p [s [Hn [Hs _]]]]].
  apply seconds_ok_checks in Hs. destruct Hs as [_ [Hb HR]].
  apply index_of_proximal_ok_le in Hi. destruct Hi as [p' [Hn' Hp']].
  rewrite Hn in Hn'. inversion Hn'; subst p'.
  exists p. auto.
Qed.

(** * C15_zero_tempo, C15_negative *)

Lemma wf_bpm_nonempty B : wf_bpm B -> evs B <> [].
Proof. intros [_ [e0 [rest [E _]]]]. rewrite E. discriminate. Qed.

Lemma C15_zero_tempo : C15_zero_tempo_stmt.
Proof.
  unfold C15_zero_tempo_stmt. intros B t h Hwf Hh [p [Hn Hb]].
  pose proof (wf_bpm_nonempty B Hwf) as Hne. destruct Hwf as [Hs _].
  destruct (C11_hint (evs B) t h Hs Hne Hh) as [H1 H2].
  unfold timestamp_at_tick.
  destruct (Z_le_gt_dec h (gov (evs B) t)) as [Hle|Hgt].
  - rewrite (H1 Hle). simpl. rewrite Hn. unfold seconds.
    destruct (tick_between (b_tick p) t <? 0); [reflexivity|].
    rewrite Hb. reflexivity.
  - rewrite H2 by lia. reflexivity.
Qed.

Lemma C15_negative : C15_negative_stmt.
Proof.
  unfold C15_negative_stmt. intros B t h Hwf Hh Ht.
  pose proof (wf_bpm_nonempty B Hwf) as Hne.
  destruct Hwf as [Hs [e0 [rest [E0 Ht0]]]].
  apply (C11_ts_reject B t h Hs Hne).
  rewrite gov_cnt. rewrite E0 in *.
  rewrite (sorted_head_lt e0 rest t Hs) by lia. lia.
Qed.

(** * C15_reject_R *)

Lemma bpm_from_data_first T tick raw res :
  numeral_ok T (tick, raw) -> exists e, bpm_from_data T tick raw None res = Ok e.
Proof.
  intros [b [Hd Hc]]. simpl in Hd. unfold bpm_from_data.
  rewrite Hd. simpl. rewrite Hc. simpl. eexists. reflexivity.
Qed.

Lemma bpm_from_data_second_R T tick raw p res :
  res <= 0 -> numeral_ok T (tick, raw) -> bpm_from_data T tick raw (Some p) res = Err EValue.
Proof.
  intros Hres [b [Hd Hc]]. simpl in Hd. unfold bpm_from_data.
  rewrite Hd. simpl.
  destruct (tick <=? b_tick p); [reflexivity|].
  unfold seconds.
  destruct (tick_between (b_tick p) tick <? 0); [reflexivity|].
  destruct (f_le (b_bpm p) fzero); [reflexivity|].
  replace (res <=? 0) with true by (symmetry; apply Z.leb_le; exact Hres).
  reflexivity.
Qed.

Lemma C15_reject_R : C15_reject_R_stmt.
Proof.
  unfold C15_reject_R_stmt. intros T datas res Hres Hall.
  assert (Eres : (res <=? 0) = true) by (apply Z.leb_le; exact Hres).
  unfold build_bpm_events.
  destruct datas as [|[t1 r1] ds].
  - simpl. unfold mk_bpm_events. rewrite Eres. reflexivity.
  - inversion Hall as [|d ds' H1 Hds]; subst.
    destruct (bpm_from_data_first T t1 r1 res H1) as [e1 He1].
    simpl build_bpm_list. rewrite He1. simpl bind.
    destruct ds as [|[t2 r2] ds2].
    + simpl. unfold mk_bpm_events. rewrite Eres. reflexivity.
    + inversion Hds as [|d ds' H2 _]; subst.
      simpl build_bpm_list.
      rewrite (bpm_from_data_second_R T t2 r2 e1 res Hres H2). reflexivity.
Qed.

(** * C15_reject: every failure of the build is a ValueError or an OverflowError *)

(** ** Signs (the sign bit of every float [seconds] produces is clear) *)

Lemma c15_f_le_fzero_false b : f_le b fzero = false -> Bsign b = false.
Proof. destruct b as [[|]|[|]| |[|] m e H]; simpl; try reflexivity; discriminate. Qed.

Lemma c15_of_Z_correct z :
  is_finite (of_Z z) = true ->
  B2R (of_Z z) = RN (IZR z) /\ (0 <= z -> Bsign (of_Z z) = false).
Proof.
  intro Hf. unfold of_Z, F in *.
  generalize (binary_normalize_correct prec emax Hprec Hemax mode_NE z 0 false).
  cbv zeta.
  replace (F2R (Float radix2 z 0)) with (IZR z) by (unfold F2R; simpl; now rewrite Rmult_1_r).
  destruct Rlt_bool.
  - intros (H1 & _ & H3). split. exact H1.
    intro Hz. rewrite H3. apply IZR_le in Hz.
    destruct (Rcompare_spec (IZR z) 0); try reflexivity. lra.
  - intro H. exfalso.
    rewrite <- is_finite_SF_B2SF, H in Hf. discriminate.
Qed.

Lemma c15_Bsign_fmul x y : Bsign x = false -> Bsign y = false -> Bsign (fmul x y) = false.
Proof.
  intros Hx Hy. unfold fmul.
  generalize (Bmult_correct prec emax Hprec Hemax mode_NE x y).
  destruct Rlt_bool.
  - intros (_ & _ & H). destruct (is_nan (Bmult mode_NE x y)) eqn:E.
    + destruct (Bmult mode_NE x y); try discriminate. reflexivity.
    + rewrite H, Hx, Hy; reflexivity.
  - rewrite Hx, Hy. simpl. destruct (Bmult mode_NE x y); simpl; intro H; try discriminate.
    now inversion H.
Qed.

Lemma c15_Bsign_fdiv x y : Bsign x = false -> Bsign y = false -> Bsign (fdiv x y) = false.
Proof.
  intros Hx Hy. unfold fdiv.
  destruct (Req_dec (B2R y) 0) as [Hy0|Hy0].
  - destruct y as [sy|sy| |sy my ey Hyb]; simpl in Hy; subst;
      try (destruct x as [sx|sx| |sx mx ex Hxb]; simpl in Hx; subst; reflexivity).
    exfalso. simpl in Hy0. apply eq_0_F2R in Hy0. discriminate.
  - generalize (Bdiv_correct prec emax Hprec Hemax mode_NE x y Hy0).
    destruct Rlt_bool.
    + intros (_ & _ & H). destruct (is_nan (Bdiv mode_NE x y)) eqn:E.
      * destruct (Bdiv mode_NE x y); try discriminate. reflexivity.
      * rewrite H, Hx, Hy; reflexivity.
    + rewrite Hx, Hy. simpl. destruct (Bdiv mode_NE x y); simpl; intro H; try discriminate.
      now inversion H.
Qed.

(** ** Small integers convert *)

Lemma py_float_of_int_small z : Z.abs z <= 2 ^ 53 -> py_float_of_int z = Ok (of_Z z).
Proof.
  intro Hz. unfold py_float_of_int, is_fin. cbv zeta. now rewrite of_Z_finite.
Qed.

Lemma is_zero_B2R (x : f64) : is_zero x = true -> B2R x = 0%R.
Proof. destruct x; simpl; intro H; try discriminate; reflexivity. Qed.

Lemma is_zero_false_pos (x : f64) : (0 < B2R x)%R -> is_zero x = false.
Proof.
  intro H. destruct (is_zero x) eqn:E; [|reflexivity].
  apply is_zero_B2R in E. lra.
Qed.

Lemma of_Z_nonzero z : 0 < z <= 2 ^ 53 -> is_zero (of_Z z) = false.
Proof.
  intro Hz. apply is_zero_false_pos. rewrite of_Z_B2R by lia. apply IZR_lt. lia.
Qed.

(** ** The decoded tempo *)

Definition decoded (b : f64) : Prop :=
  exists n, Z.abs n <= 2 ^ 53 /\ b = fdiv (of_Z n) (of_Z 1000).

Lemma decode_bpm_decoded T raw b : decode_bpm T raw = Ok b -> decoded b.
Proof.
  unfold decode_bpm. intro H. apply bind_ok in H. destruct H as [n [_ H]].
  unfold py_truediv_int in H.
  destruct (1000 =? 0); [discriminate H|].
  destruct ((Z.abs n <=? two53) && (Z.abs 1000 <=? two53))%bool eqn:E; [|discriminate H].
  apply andb_prop in E. destruct E as [E _]. apply Z.leb_le in E. rewrite two53_eq in E.
  inversion H. exists n. auto.
Qed.

Lemma bpow_m10 : bpow radix2 (-10) = (/ 1024)%R.
Proof. reflexivity. Qed.
Lemma bpow_m16 : bpow radix2 (-16) = (/ 65536)%R.
Proof. reflexivity. Qed.

(** A decoded tempo that passes the [bpm <= 0] check is finite and at least 2^-10. *)
Lemma decoded_pos b :
  decoded b -> f_le b fzero = false ->
  is_finite b = true /\ (bpow radix2 (-10) <= B2R b)%R.
Proof.
  intros [n [Hn Eb]] Hle.
  assert (H1000 : B2R (of_Z 1000) = 1000%R) by (apply of_Z_B2R; lia).
  assert (Hb : (Rabs (IZR n) <= bpow radix2 53)%R).
  { rewrite <- abs_IZR, <- IZR_pow2 by lia. apply IZR_le. exact Hn. }
  destruct (fdiv_correct (of_Z n) (of_Z 1000)) as (Hv & Hf & _).
  - apply of_Z_finite; exact Hn.
  - apply of_Z_finite; lia.
  - rewrite H1000. lra.
  - rewrite H1000, of_Z_B2R by exact Hn.
    unfold Rdiv. rewrite Rabs_mult. rewrite (Rabs_pos_eq (/ 1000)) by lra.
    apply Rle_trans with (bpow radix2 53); [|apply bpow_le; lia].
    assert (0 <= Rabs (IZR n))%R by apply Rabs_pos. lra.
  - rewrite <- Eb in Hv, Hf. split; [exact Hf|].
    rewrite f_le_correct in Hle by (auto; reflexivity).
    assert (Hpos : (0 < B2R b)%R).
    { destruct (Rle_bool_spec (B2R b) (B2R fzero)) as [K|K]; [discriminate Hle|].
      simpl in K. exact K. }
    rewrite H1000, of_Z_B2R in Hv by exact Hn.
    assert (Hn1 : 1 <= n).
    { destruct (Z_lt_le_dec n 1) as [L|L]; [exfalso | exact L].
      assert (IZR n <= 0)%R by (apply IZR_le; lia).
      assert (RN (IZR n / 1000) <= 0)%R.
      { rewrite <- RN_0. apply RN_le. lra. }
      lra. }
    rewrite Hv. apply RN_ge_generic; [apply format64_bpow; lia|].
    rewrite bpow_m10. apply IZR_le in Hn1. lra.
Qed.

(** The ticks-per-second value is never a zero. *)
Lemma tps_nonzero b res :
  decoded b -> f_le b fzero = false -> 0 < res -> is_finite (of_Z res) = true ->
  is_zero (fdiv (fmul b (of_Z res)) (of_Z 60)) = false.
Proof.
  intros Hd Hle Hres Hfr.
  destruct (decoded_pos b Hd Hle) as [Hfb Hb].
  destruct (c15_of_Z_correct res Hfr) as [Hr _].
  assert (Hr1 : (1 <= B2R (of_Z res))%R).
  { rewrite Hr. change 1%R with (bpow radix2 0).
    apply RN_ge_generic; [apply format64_bpow; lia|].
    change (bpow radix2 0) with 1%R. apply IZR_le. lia. }
  assert (H60 : B2R (of_Z 60) = 60%R) by (apply of_Z_B2R; lia).
  assert (H60f : is_finite (of_Z 60) = true) by (apply of_Z_finite; lia).
  assert (H60z : is_zero (of_Z 60) = false) by (apply of_Z_nonzero; lia).
  rewrite bpow_m10 in Hb.
  set (y60 := of_Z 60) in *. clearbody y60.
  set (yr := of_Z res) in *. clearbody yr.
  unfold fmul.
  generalize (Bmult_correct prec emax Hprec Hemax mode_NE b yr).
  destruct Rlt_bool.
  - intros (Hv & Hf & _). rewrite RN_mode_NE in Hv.
    set (tpm := Bmult mode_NE b yr) in *. clearbody tpm.
    assert (Htpm : (/ 1024 <= B2R tpm)%R).
    { rewrite Hv. rewrite <- bpow_m10. apply RN_ge_generic; [apply format64_bpow; lia|].
      rewrite bpow_m10. nra. }
    unfold fdiv.
    assert (Hy0 : B2R y60 <> 0%R) by (rewrite H60; lra).
    generalize (Bdiv_correct prec emax Hprec Hemax mode_NE tpm y60 Hy0).
    destruct Rlt_bool.
    + intros (Hv2 & _). rewrite RN_mode_NE in Hv2.
      apply is_zero_false_pos. rewrite Hv2, H60.
      apply Rlt_le_trans with (bpow radix2 (-16)); [apply bpow_gt_0|].
      apply RN_ge_generic; [apply format64_bpow; lia|].
      rewrite bpow_m16. lra.
    + simpl. intro H. destruct (Bdiv mode_NE tpm y60); simpl in H; try discriminate H.
      reflexivity.
  - simpl. intro H.
    destruct (Bmult mode_NE b yr) as [s|s| |s m e Hbd]; simpl in H; try discriminate H.
    unfold fdiv. destruct y60 as [s'|s'| |s' m' e' Hbd']; try discriminate; reflexivity.
Qed.

(** ** Results that are a value, a ValueError or an OverflowError *)

Definition ve {A} (r : result A) : Prop :=
  match r with Ok _ => True | Err e => e = EValue \/ e = EOverflow end.

Lemma ve_bind {A B} (r : result A) (f : A -> result B) :
  ve r -> (forall a, r = Ok a -> ve (f a)) -> ve (bind r f).
Proof. destruct r as [a|e]; simpl; intros H1 H2; [apply H2; reflexivity | exact H1]. Qed.

Lemma ve_td_check v : ve (td_check v).
Proof. unfold td_check. destruct (td_in_range v); simpl; auto. Qed.

Lemma ve_td_of_seconds x : Bsign x = false -> ve (td_of_seconds x).
Proof.
  intro Hs. destruct x as [s|s| |s m e Hb]; simpl; auto.
  simpl in Hs. subst s.
  destruct (0 <=? e); [apply ve_td_check|].
  destruct (Z.pos m mod 2 ^ (- e) =? 0); [apply ve_td_check|].
  destruct (F (Z.pos m mod 2 ^ (- e) * us_per_second) e) as [s2|s2| |s2 m2 e2 Hb2];
    try apply ve_td_check.
  destruct (0 <=? e2); apply ve_td_check.
Qed.

Lemma py_float_of_int_cases z :
  (py_float_of_int z = Ok (of_Z z) /\ is_finite (of_Z z) = true) \/
  py_float_of_int z = Err EOverflow.
Proof.
  unfold py_float_of_int, is_fin. cbv zeta. destruct (is_finite (of_Z z)); auto.
Qed.

(** ** [seconds] on a decoded tempo *)

Lemma seconds_eval dt b res :
  decoded b -> f_le b fzero = false -> 0 <= dt -> 0 < res ->
  is_finite (of_Z res) = true -> is_finite (of_Z dt) = true ->
  seconds dt b res =
    Ok (fmul (of_Z dt) (fdiv (of_Z 1) (fdiv (fmul b (of_Z res)) (of_Z 60)))).
Proof.
  intros Hd Hle Hdt Hres Hfr Hfd. unfold seconds.
  replace (dt <? 0) with false by (symmetry; apply Z.ltb_ge; exact Hdt).
  rewrite Hle.
  replace (res <=? 0) with false by (symmetry; apply Z.leb_gt; exact Hres).
  unfold py_mul_float_int, py_div_float_int, py_div_int_float, py_mul_int_float.
  unfold py_float_of_int at 1. unfold is_fin. cbv zeta. rewrite Hfr.
  cbn [bind].
  rewrite (py_float_of_int_small 60) by lia. cbn [bind].
  rewrite of_Z_nonzero by lia.
  rewrite (py_float_of_int_small 1) by lia. cbn [bind].
  rewrite (tps_nonzero b res Hd Hle Hres Hfr).
  unfold py_float_of_int, is_fin. cbv zeta. rewrite Hfd. reflexivity.
Qed.

Lemma seconds_ve dt b res :
  decoded b -> 0 <= dt ->
  ve (seconds dt b res) /\ (forall s, seconds dt b res = Ok s -> Bsign s = false).
Proof.
  intros Hd Hdt.
  assert (Herr : forall e, e = EValue \/ e = EOverflow -> seconds dt b res = Err e ->
            ve (seconds dt b res) /\ (forall s, seconds dt b res = Ok s -> Bsign s = false)).
  { intros e He E. rewrite E. split; [exact He | intros s Hs; discriminate Hs]. }
  assert (Edt : (dt <? 0) = false) by (apply Z.ltb_ge; exact Hdt).
  destruct (f_le b fzero) eqn:Hle.
  { apply (Herr EValue); [auto|]. unfold seconds. rewrite Edt, Hle. reflexivity. }
  destruct (Z_le_gt_dec res 0) as [Hres|Hres].
  { apply (Herr EValue); [auto|]. unfold seconds. rewrite Edt, Hle.
    replace (res <=? 0) with true by (symmetry; apply Z.leb_le; exact Hres).
    reflexivity. }
  assert (Hres' : 0 < res) by lia.
  assert (Eres : (res <=? 0) = false) by (apply Z.leb_gt; exact Hres').
  destruct (is_finite (of_Z res)) eqn:Hfr.
  2:{ apply (Herr EOverflow); [auto|]. unfold seconds. rewrite Edt, Hle, Eres.
      unfold py_mul_float_int, py_float_of_int, is_fin. cbv zeta. rewrite Hfr.
      reflexivity. }
  destruct (is_finite (of_Z dt)) eqn:Hfd.
  2:{ apply (Herr EOverflow); [auto|]. unfold seconds. rewrite Edt, Hle, Eres.
      unfold py_mul_float_int, py_div_float_int, py_div_int_float, py_mul_int_float.
      unfold py_float_of_int at 1. unfold is_fin. cbv zeta. rewrite Hfr. cbn [bind].
      rewrite (py_float_of_int_small 60) by lia. cbn [bind].
      rewrite of_Z_nonzero by lia.
      rewrite (py_float_of_int_small 1) by lia. cbn [bind].
      rewrite (tps_nonzero b res Hd Hle Hres' Hfr).
      unfold py_float_of_int, is_fin. cbv zeta. rewrite Hfd. reflexivity. }
  rewrite (seconds_eval dt b res Hd Hle Hdt Hres' Hfr Hfd).
  set (X := fmul (of_Z dt) (fdiv (of_Z 1) (fdiv (fmul b (of_Z res)) (of_Z 60)))).
  assert (HX : Bsign X = false).
  { unfold X.
    apply c15_Bsign_fmul; [apply c15_of_Z_correct; [exact Hfd | exact Hdt]|].
    apply c15_Bsign_fdiv; [apply of_Z_sign; lia|].
    apply c15_Bsign_fdiv.
    - apply c15_Bsign_fmul; [apply c15_f_le_fzero_false; exact Hle|].
      apply c15_of_Z_correct; [exact Hfr | lia].
    - apply of_Z_sign; lia. }
  clearbody X.
  split; [exact I|]. intros s Hs. inversion Hs; subst s. exact HX.
Qed.

(** ** The build *)

Lemma bpm_from_data_ve T tick raw prev res :
  numeral_ok T (tick, raw) ->
  (forall p, prev = Some p -> decoded (b_bpm p)) ->
  ve (bpm_from_data T tick raw prev res) /\
  (forall e, bpm_from_data T tick raw prev res = Ok e -> decoded (b_bpm e)).
Proof.
  intros [b [Hdec Hchk]] Hprev. simpl in Hdec. split.
  - unfold bpm_from_data. rewrite Hdec. cbn [bind].
    apply ve_bind.
    + destruct prev as [p|]; [|exact I].
      destruct (tick <=? b_tick p); [simpl; auto|].
      assert (H0 : 0 <= tick_between (b_tick p) tick) by (unfold tick_between; lia).
      destruct (seconds_ve (tick_between (b_tick p) tick) (b_bpm p) res
                  (Hprev p eq_refl) H0) as [Hve Hsign].
      apply ve_bind; [exact Hve|]. intros s Hs.
      apply ve_bind; [apply ve_td_of_seconds; exact (Hsign s Hs)|]. intros d _.
      apply ve_bind; [apply ve_td_check|]. intros ts _. exact I.
    + intros [ts idx] _. rewrite Hchk. exact I.
  - intros e He. apply bpm_from_data_ok_inv in He.
    destruct He as [_ [_ [bpm [Hd [Hb _]]]]]. rewrite Hb.
    eapply decode_bpm_decoded. exact Hd.
Qed.

Lemma build_bpm_list_ve T res : forall datas prev,
  Forall (numeral_ok T) datas ->
  (forall p, prev = Some p -> decoded (b_bpm p)) ->
  ve (build_bpm_list T datas prev res).
Proof.
  induction datas as [|[tick raw] ds IH]; intros prev Hall Hprev.
  - exact I.
  - inversion Hall as [|d ds' H1 Hds]; subst.
    destruct (bpm_from_data_ve T tick raw prev res H1 Hprev) as [Hve Hdec].
    simpl build_bpm_list.
    apply ve_bind; [exact Hve|]. intros e He.
    apply ve_bind.
    + apply IH; [exact Hds|]. intros p Ep. inversion Ep; subst p. exact (Hdec e He).
    + intros es _. exact I.
Qed.

Lemma ve_mk_bpm_events es res : ve (mk_bpm_events es res).
Proof.
  unfold mk_bpm_events. destruct (res <=? 0); [simpl; auto|].
  destruct es as [|e0 rest]; [simpl; auto|].
  destruct (b_tick e0 =? 0); simpl; auto.
Qed.

(** Every failure of the build on individually valid numerals is a ValueError or an
    OverflowError (whether or not the data is untrustworthy). *)
Lemma build_bpm_events_ve T datas res :
  Forall (numeral_ok T) datas -> ve (build_bpm_events T datas res).
Proof.
  intro Hall. unfold build_bpm_events.
  apply ve_bind; [apply build_bpm_list_ve; [exact Hall | discriminate]|].
  intros es _. apply ve_mk_bpm_events.
Qed.

Lemma C15_reject : C15_reject_stmt.
Proof.
  unfold C15_reject_stmt. intros T datas res Hu Hall.
  pose proof (build_bpm_events_ve T datas res Hall) as Hve.
  pose proof (C15_never_ok T datas res Hu) as Hno.
  destruct (build_bpm_events T datas res) as [B|e].
  - exfalso. exact (Hno B eq_refl).
  - simpl in Hve. destruct Hve as [-> | ->]; auto.
Qed.
