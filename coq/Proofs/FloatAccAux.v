(** Proofs/FloatAccAux.v — real-number characterisations of the binary64 operations of
    Base/Float64.v and of [td_of_seconds], used by Proofs/FloatAcc.v. *)
From CP Require Import Base.Prelude Base.Float64 Base.Timedelta Model.Sync Spec.FloatSpec.
From Coq Require Import Reals Lra Lia ZifyBool.
From Flocq Require Import Core.Core IEEE754.BinarySingleNaN Relative.
From Interval Require Import Tactic.
Open Scope R_scope.

Lemma RN_fold x :
  round radix2 (SpecFloat.fexp prec emax) (round_mode mode_NE) x = RN x.
Proof. reflexivity. Qed.

#[global] Instance RN_valid_exp : Valid_exp (FLT_exp (-1074) 53).
Proof. apply FLT_exp_valid. reflexivity. Qed.

(** 1+eps form of one rounding, away from underflow and overflow. *)
Lemma RN_rel x :
  bpow radix2 (-1022) <= Rabs x <= bpow radix2 1000 ->
  exists e, Rabs e <= bpow radix2 (-53) /\ RN x = x * (1 + e) /\
            Rabs (RN x) < bpow radix2 emax.
Proof.
  intros [Hlo Hhi].
  destruct (relative_error_N_FLT_ex radix2 (-1074) 53 eq_refl (fun z => negb (Z.even z)) x)
    as (e & He & Hr).
  { exact Hlo. }
  assert (He' : Rabs e <= bpow radix2 (-53)).
  { assert (E : bpow radix2 (-52) = 2 * bpow radix2 (-53)).
    { change (-52)%Z with (-53 + 1)%Z. rewrite bpow_plus_1. reflexivity. }
    change (- (53) + 1)%Z with (-52)%Z in He. rewrite E in He. lra. }
  exists e. split; [exact He'|]. split; [exact Hr|].
  unfold RN. rewrite Hr. unfold emax. clear Hr He Hlo. interval with (i_prec 64).
Qed.

Lemma fmul_rel x y :
  is_finite x = true -> is_finite y = true ->
  bpow radix2 (-1022) <= Rabs (B2R x * B2R y) <= bpow radix2 1000 ->
  exists e, Rabs e <= bpow radix2 (-53) /\
            B2R (fmul x y) = B2R x * B2R y * (1 + e) /\ is_finite (fmul x y) = true.
Proof.
  intros Fx Fy Hr. destruct (RN_rel _ Hr) as (e & He & Hv & Hlt).
  exists e. split; [exact He|].
  pose proof (Bmult_correct prec emax Hprec Hemax mode_NE x y) as H.
  rewrite RN_fold in H. rewrite Rlt_bool_true in H by exact Hlt.
  destruct H as (H1 & H2 & _). unfold fmul. rewrite H1, H2, Fx, Fy, Hv. auto.
Qed.

Lemma fdiv_rel x y :
  is_finite x = true -> B2R y <> 0 ->
  bpow radix2 (-1022) <= Rabs (B2R x / B2R y) <= bpow radix2 1000 ->
  exists e, Rabs e <= bpow radix2 (-53) /\
            B2R (fdiv x y) = B2R x / B2R y * (1 + e) /\ is_finite (fdiv x y) = true.
Proof.
  intros Fx Fy Hr. destruct (RN_rel _ Hr) as (e & He & Hv & Hlt).
  exists e. split; [exact He|].
  pose proof (Bdiv_correct prec emax Hprec Hemax mode_NE x y Fy) as H.
  rewrite RN_fold in H. rewrite Rlt_bool_true in H by exact Hlt.
  destruct H as (H1 & H2 & _). unfold fdiv. rewrite H1, H2, Fx, Hv. auto.
Qed.

(** [F m e] in general: the rounding of m·2^e, provided it does not overflow. *)
Lemma F_spec m e :
  Rabs (RN (IZR m * bpow radix2 e)) < bpow radix2 emax ->
  B2R (F m e) = RN (IZR m * bpow radix2 e) /\ is_finite (F m e) = true.
Proof.
  intros Hlt.
  pose proof (binary_normalize_correct prec emax Hprec Hemax mode_NE m e false) as H.
  cbv zeta in H. rewrite RN_fold in H. unfold F2R in H. simpl Fnum in H. simpl Fexp in H.
  rewrite Rlt_bool_true in H by exact Hlt.
  destruct H as (H1 & H2 & _). unfold F. auto.
Qed.

Lemma of_Z_exact z :
  (Z.abs z < 2 ^ 53)%Z -> B2R (of_Z z) = IZR z /\ is_finite (of_Z z) = true.
Proof.
  intros Hz.
  assert (G : RN (IZR z * bpow radix2 0) = IZR z).
  { simpl (bpow radix2 0). rewrite Rmult_1_r. unfold RN. apply round_generic.
    - apply valid_rnd_N.
    - apply generic_format_FLT. exists (Float radix2 z 0).
      + unfold F2R. simpl. ring.
      + simpl Fnum. exact Hz.
      + simpl. lia. }
  unfold of_Z. rewrite <- G at 1. apply F_spec. rewrite G. unfold emax.
  apply Rlt_le_trans with (bpow radix2 53).
  - rewrite <- abs_IZR. change (bpow radix2 53) with (IZR (2 ^ 53)). apply IZR_lt. exact Hz.
  - apply bpow_le. lia.
Qed.

(** *** [td_of_seconds] *)

Lemma td_check_ok us : (0 <= us <= 3000000000000)%Z -> td_check us = Ok us.
Proof.
  intros H. unfold td_check, td_in_range, us_per_day, us_per_second, max_days.
  change (86400 * 1000000)%Z with 86400000000%Z.
  set (q := (us / 86400000000)%Z).
  assert (Hq : (0 <= q <= 35)%Z).
  { unfold q. split; [apply Z.div_pos; lia | apply Z.div_le_upper_bound; lia]. }
  clearbody q.
  rewrite !(proj2 (Z.leb_le _ _)) by lia.
  reflexivity.
Qed.

Lemma split_val (m e : Z) :
  (e < 0)%Z ->
  (0 < 2 ^ (- e))%Z /\
  IZR m * bpow radix2 e = IZR (m / 2 ^ (- e)) + IZR (m mod 2 ^ (- e)) / IZR (2 ^ (- e)).
Proof.
  intros He. set (d := (2 ^ (- e))%Z).
  assert (Hd : (0 < d)%Z) by (unfold d; apply Z.pow_pos_nonneg; lia).
  split; [exact Hd|].
  assert (Hb : bpow radix2 e = / IZR d).
  { replace e with (- (- e))%Z at 1 by lia. rewrite bpow_opp. f_equal.
    unfold d. rewrite <- (IZR_Zpower radix2) by lia. reflexivity. }
  rewrite Hb. rewrite (Z_div_mod_eq_full m d) at 1.
  rewrite plus_IZR, mult_IZR. field. apply IZR_neq. lia.
Qed.

Lemma whole_half (total num2 d2 : Z) :
  (0 <= num2 < d2)%Z ->
  let whole := match Z.compare (2 * num2) d2 with
               | Lt => 0 | Gt => 1 | Eq => if Z.odd total then 1 else 0 end%Z in
  (0 <= whole <= 1)%Z /\ Rabs (IZR whole - IZR num2 / IZR d2) <= 1 / 2.
Proof.
  intros [H0 H1]. cbv zeta.
  assert (HD : 0 < IZR d2) by (apply IZR_lt; lia).
  assert (HN : 0 <= IZR num2) by (apply IZR_le; lia).
  assert (HL : IZR num2 < IZR d2) by (apply IZR_lt; lia).
  set (r := IZR num2 / IZR d2).
  assert (Hr : IZR num2 = r * IZR d2) by (unfold r; field; lra).
  assert (Hr0 : 0 <= r) by (unfold r; apply Rmult_le_pos; [lra | apply Rlt_le, Rinv_0_lt_compat; lra]).
  assert (Hr1 : r < 1).
  { apply Rmult_lt_reg_r with (IZR d2); [exact HD|]. rewrite <- Hr. lra. }
  destruct (Z.compare_spec (2 * num2) d2) as [E|E|E].
  - assert (E' : 2 * IZR num2 = IZR d2) by (rewrite <- E, mult_IZR; reflexivity).
    assert (r = 1 / 2).
    { apply Rmult_eq_reg_r with (IZR d2); [|lra]. rewrite <- Hr. lra. }
    destruct (Z.odd total); split; try lia; apply Rabs_le; simpl; lra.
  - assert (E' : 2 * IZR num2 < IZR d2) by (rewrite <- mult_IZR; apply IZR_lt; exact E).
    assert (r < 1 / 2).
    { apply Rmult_lt_reg_r with (IZR d2); [exact HD|]. rewrite <- Hr. lra. }
    split; [lia|]. apply Rabs_le. lra.
  - assert (E' : IZR d2 < 2 * IZR num2) by (rewrite <- mult_IZR; apply IZR_lt; exact E).
    assert (1 / 2 < r).
    { apply Rmult_lt_reg_r with (IZR d2); [exact HD|]. rewrite <- Hr. lra. }
    split; [lia|]. apply Rabs_le. lra.
Qed.

Lemma half_bpow52 : / 2 * bpow radix2 (- (53) + 1) = bpow radix2 (-53).
Proof.
  assert (E : bpow radix2 (-52) = 2 * bpow radix2 (-53)).
  { change (-52)%Z with (-53 + 1)%Z. rewrite bpow_plus_1. reflexivity. }
  change (- (53) + 1)%Z with (-52)%Z. rewrite E. field.
Qed.

Lemma IZR_pow2 e : (0 <= e)%Z -> IZR (2 ^ e) = bpow radix2 e.
Proof. intros. rewrite <- (IZR_Zpower radix2) by lia. reflexivity. Qed.

Lemma bpow_neg e : (e < 0)%Z -> (0 < 2 ^ (- e))%Z /\ bpow radix2 e = / IZR (2 ^ (- e)).
Proof.
  intros He. split; [apply Z.pow_pos_nonneg; lia|].
  replace e with (- (- e))%Z at 1 by lia. rewrite bpow_opp. f_equal.
  rewrite IZR_pow2 by lia. reflexivity.
Qed.

(** Absolute error of one rounding of a value below 10^6. *)
Lemma RN_abs_err y :
  0 <= y <= 1000000 ->
  0 <= RN y /\ Rabs (RN y - y) <= bpow radix2 (-32) /\ Rabs (RN y) < bpow radix2 emax.
Proof.
  intros Hy.
  destruct (error_N_FLT radix2 (-1074) 53 eq_refl (fun z => negb (Z.even z)) y)
    as (eps & eta & He & Ht & _ & Hr).
  rewrite half_bpow52 in He. fold (RN y) in Hr.
  split.
  - unfold RN. rewrite <- (round_0 radix2 (FLT_exp (-1074) 53) ZnearestE).
    apply round_le; [apply RN_valid_exp | apply valid_rnd_N | lra].
  - rewrite Hr. replace (y * (1 + eps) + eta - y) with (y * eps + eta) by ring.
    unfold emax. split; interval with (i_prec 64).
Qed.

Lemma td_of_seconds_acc x :
  is_finite x = true -> 0 <= B2R x <= 2000000 ->
  exists u, td_of_seconds x = Ok u /\ (0 <= u)%Z /\
            Rabs (IZR u - 1000000 * B2R x) <= 1 / 2 + bpow radix2 (-32).
Proof.
  intros Fx Hx. destruct x as [s|s| |s m e Hb]; try discriminate.
  - exists 0%Z. simpl. split; [reflexivity|]. split; [lia|].
    rewrite Rmult_0_r, Rminus_0_r, Rabs_R0. interval with (i_prec 64).
  - destruct s.
    + exfalso. simpl in Hx.
      assert (F2R (Float radix2 (Zneg m) e) < 0) by (apply F2R_lt_0; simpl; lia). lra.
    + unfold td_of_seconds. unfold B2R in *. unfold cond_Zopp in *. unfold F2R in *.
      simpl Fnum in *. simpl Fexp in *.
      destruct (Z.leb_spec 0 e) as [He|He].
      * set (us := (Z.pos m * 2 ^ e * us_per_second)%Z).
        assert (E : IZR us = 1000000 * (IZR (Z.pos m) * bpow radix2 e)).
        { unfold us, us_per_second. rewrite !mult_IZR, IZR_pow2 by lia. ring. }
        assert (Hu : (0 <= us <= 2000000000000)%Z).
        { split; apply le_IZR; rewrite E; lra. }
        exists us. split; [apply td_check_ok; lia|]. split; [lia|].
        rewrite E. replace (_ - _) with 0 by ring. rewrite Rabs_R0. interval with (i_prec 64).
      * destruct (bpow_neg e He) as [Hd Hbe]. cbv zeta.
        set (d := (2 ^ (- e))%Z) in *.
        set (ip := (Z.pos m / d)%Z). set (fm := (Z.pos m mod d)%Z).
        assert (Hfm : (0 <= fm < d)%Z) by (apply Z.mod_pos_bound; exact Hd).
        assert (HD : 0 < IZR d) by (apply IZR_lt; lia).
        assert (Hm : IZR (Z.pos m) = IZR d * IZR ip + IZR fm).
        { rewrite <- mult_IZR, <- plus_IZR. f_equal. apply Z_div_mod_eq_full. }
        assert (Hfr : 0 <= IZR fm / IZR d < 1).
        { assert (0 <= IZR fm) by (apply IZR_le; lia).
          assert (IZR fm < IZR d) by (apply IZR_lt; lia).
          split.
          - apply Rmult_le_pos; [lra | apply Rlt_le, Rinv_0_lt_compat; lra].
          - apply Rmult_lt_reg_r with (IZR d); [exact HD|]. unfold Rdiv.
            rewrite Rmult_assoc, Rinv_l by lra. lra. }
        assert (Hxv : IZR (Z.pos m) * bpow radix2 e = IZR ip + IZR fm / IZR d).
        { rewrite Hbe, Hm. field. lra. }
        rewrite Hxv in *.
        assert (Hip0 : (0 <= ip)%Z) by (unfold ip; apply Z.div_pos; lia).
        assert (Hip : IZR ip <= 2000000) by lra.
        assert (Hip' : (ip <= 2000000)%Z) by (apply le_IZR; exact Hip).
        destruct (Z.eqb_spec fm 0) as [Ez|Ez].
        -- exists (ip * us_per_second)%Z. unfold us_per_second.
           split; [apply td_check_ok; lia|]. split; [lia|].
           rewrite Ez, mult_IZR. replace (_ - _) with 0 by (unfold Rdiv; ring).
           rewrite Rabs_R0. interval with (i_prec 64).
        -- set (y := IZR (fm * us_per_second) * bpow radix2 e).
           assert (Hy : y = 1000000 * (IZR fm / IZR d)).
           { unfold y, us_per_second. rewrite mult_IZR, Hbe. field. lra. }
           assert (Hy01 : 0 <= y <= 1000000) by lra.
           destruct (RN_abs_err y Hy01) as (Hr0 & Herr & Hlt).
           destruct (F_spec (fm * us_per_second) e Hlt) as [HB HF]. fold y in HB.
           destruct (F (fm * us_per_second) e) as [s2|s2| |s2 m2 e2 Hb2]; try discriminate.
           ++ exists (ip * us_per_second)%Z. unfold us_per_second.
              split; [apply td_check_ok; lia|]. split; [lia|].
              simpl in HB. rewrite <- HB in Herr. rewrite mult_IZR.
              replace (_ - _) with (0 - y) by (rewrite Hy; unfold Rdiv; ring).
              apply Rle_trans with (1 := Herr). interval with (i_prec 64).
           ++ destruct s2.
              { exfalso. simpl in HB.
                assert (F2R (Float radix2 (Zneg m2) e2) < 0) by (apply F2R_lt_0; simpl; lia).
                lra. }
              unfold B2R, cond_Zopp, F2R in HB. simpl Fnum in HB. simpl Fexp in HB.
              set (y' := RN y) in *.
              assert (Hy' : 0 <= y' <= 1000001).
              { apply Rabs_le_inv in Herr. split; [exact Hr0|].
                assert (bpow radix2 (-32) <= 1) by interval with (i_prec 64). lra. }
              destruct (Z.leb_spec 0 e2) as [He2|He2].
              ** set (ip2 := (Z.pos m2 * 2 ^ e2)%Z).
                 assert (E2 : IZR ip2 = y').
                 { unfold ip2. rewrite mult_IZR, IZR_pow2 by lia. exact HB. }
                 assert (Hip2 : (0 <= ip2 <= 1000001)%Z).
                 { split; apply le_IZR; rewrite E2; lra. }
                 change (2 * 0 ?= 1)%Z with Lt.
                 exists (ip * us_per_second + ip2 + 0)%Z. unfold us_per_second.
                 split; [apply td_check_ok; lia|]. split; [lia|].
                 rewrite !plus_IZR, mult_IZR, E2.
                 replace (_ - _) with (y' - y) by (rewrite Hy; unfold Rdiv; ring).
                 apply Rle_trans with (1 := Herr). interval with (i_prec 64).
              ** destruct (bpow_neg e2 He2) as [Hd2 Hbe2].
                 set (d2 := (2 ^ (- e2))%Z) in *.
                 set (ip2 := (Z.pos m2 / d2)%Z). set (num2 := (Z.pos m2 mod d2)%Z).
                 assert (Hn2 : (0 <= num2 < d2)%Z) by (apply Z.mod_pos_bound; exact Hd2).
                 assert (HD2 : 0 < IZR d2) by (apply IZR_lt; lia).
                 assert (Hm2 : IZR (Z.pos m2) = IZR d2 * IZR ip2 + IZR num2).
                 { rewrite <- mult_IZR, <- plus_IZR. f_equal. apply Z_div_mod_eq_full. }
                 assert (E2 : y' = IZR ip2 + IZR num2 / IZR d2).
                 { rewrite <- HB, Hbe2, Hm2. field. lra. }
                 set (total := (ip * us_per_second + ip2)%Z).
                 destruct (whole_half total num2 d2 Hn2) as [Hw Hwh].
                 set (whole := match (2 * num2 ?= d2)%Z with
                               | Eq => if Z.odd total then 1%Z else 0%Z
                               | Lt => 0%Z | Gt => 1%Z end) in *.
                 assert (Hq : 0 <= IZR num2 / IZR d2).
                 { apply Rmult_le_pos; [apply IZR_le; lia | apply Rlt_le, Rinv_0_lt_compat; lra]. }
                 assert (Hip2 : (0 <= ip2 <= 1000001)%Z).
                 { split; [unfold ip2; apply Z.div_pos; lia|]. apply le_IZR. lra. }
                 exists (total + whole)%Z. unfold total, us_per_second in *.
                 split; [apply td_check_ok; lia|]. split; [lia|].
                 rewrite !plus_IZR, mult_IZR.
                 replace (_ - _) with ((IZR whole - IZR num2 / IZR d2) + (y' - y))
                   by (rewrite E2, Hy; unfold Rdiv; ring).
                 apply Rle_trans with (1 := Rabs_triang _ _).
                 apply Rplus_le_compat; [exact Hwh | exact Herr].
Qed.
