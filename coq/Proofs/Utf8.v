(** Proofs/Utf8.v — the executable UTF-8 codec of Base/Utf8.v is a bijection between valid byte strings
    and texts of Unicode scalar values; the utf-8-sig BOM; C06's byte-order mark at byte level:
    proofs of every statement of Spec/Utf8Spec.v. *)
From CP Require Import Base.Prelude Base.Str Base.Regex Base.Cfg Base.Utf8 Model.Chart Model.ChartBytes
  Spec.ChartSpec Spec.Utf8Spec.
From CP Require Import Proofs.C06.
From Coq Require Import Lia ZifyBool ZifyN.
Open Scope N_scope.

Ltac Zify.zify_post_hook ::= Z.to_euclidean_division_equations.

(** * One decoding step, per sequence length *)
Lemma dec1 f b0 r :
  b0 < 128 ->
  utf8_decode_fuel (S f) (b0 :: r) = bind (utf8_decode_fuel f r) (fun s => Ok (b0 :: s)).
Proof.
  intro H. cbn [utf8_decode_fuel]. replace (b0 <? 128) with true by lia. reflexivity.
Qed.

Lemma dec2 f b0 b1 r c :
  194 <= b0 < 224 -> 128 <= b1 < 192 -> c = (b0 - 192) * 64 + (b1 - 128) ->
  utf8_decode_fuel (S f) (b0 :: b1 :: r) = bind (utf8_decode_fuel f r) (fun s => Ok (c :: s)).
Proof.
  intros H0 H1 ->. cbn [utf8_decode_fuel].
  replace (b0 <? 128) with false by lia.
  replace ((194 <=? b0) && (b0 <? 224)) with true by lia.
  replace (is_cont b1) with true by (unfold is_cont; lia).
  reflexivity.
Qed.

Lemma dec3 f b0 b1 b2 r c :
  224 <= b0 < 240 -> 128 <= b1 < 192 -> 128 <= b2 < 192 ->
  (b0 = 224 -> 160 <= b1) -> (b0 = 237 -> b1 < 160) ->
  c = (b0 - 224) * 4096 + (b1 - 128) * 64 + (b2 - 128) ->
  utf8_decode_fuel (S f) (b0 :: b1 :: b2 :: r) = bind (utf8_decode_fuel f r) (fun s => Ok (c :: s)).
Proof.
  intros H0 H1 H2 Ho Hs ->. cbn [utf8_decode_fuel].
  replace (b0 <? 128) with false by lia.
  replace ((194 <=? b0) && (b0 <? 224)) with false by lia.
  replace ((224 <=? b0) && (b0 <? 240)) with true by lia.
  replace (is_cont b1 && is_cont b2 && negb ((b0 =? 224) && (b1 <? 160)) && negb ((b0 =? 237) && (160 <=? b1)))
    with true by (unfold is_cont; lia).
  reflexivity.
Qed.

Lemma dec4 f b0 b1 b2 b3 r c :
  240 <= b0 < 245 -> 128 <= b1 < 192 -> 128 <= b2 < 192 -> 128 <= b3 < 192 ->
  (b0 = 240 -> 144 <= b1) -> (b0 = 244 -> b1 < 144) ->
  c = (b0 - 240) * 262144 + (b1 - 128) * 4096 + (b2 - 128) * 64 + (b3 - 128) ->
  utf8_decode_fuel (S f) (b0 :: b1 :: b2 :: b3 :: r) = bind (utf8_decode_fuel f r) (fun s => Ok (c :: s)).
Proof.
  intros H0 H1 H2 H3 Ho Hs ->. cbn [utf8_decode_fuel].
  replace (b0 <? 128) with false by lia.
  replace ((194 <=? b0) && (b0 <? 224)) with false by lia.
  replace ((224 <=? b0) && (b0 <? 240)) with false by lia.
  replace ((240 <=? b0) && (b0 <? 245)) with true by lia.
  replace (is_cont b1 && is_cont b2 && is_cont b3 && negb ((b0 =? 240) && (b1 <? 144))
           && negb ((b0 =? 244) && (144 <=? b1)))
    with true by (unfold is_cont; lia).
  reflexivity.
Qed.

(** * Encode then decode *)
Lemma encode_cons c s : utf8_encode (c :: s) = utf8_encode_char c ++ utf8_encode s.
Proof. reflexivity. Qed.

Lemma decode_encode_char f c r :
  scalar c = true ->
  utf8_decode_fuel (S f) (utf8_encode_char c ++ r) = bind (utf8_decode_fuel f r) (fun s => Ok (c :: s)).
Proof.
  intro Hs. unfold scalar in Hs. unfold utf8_encode_char.
  destruct (c <? 128) eqn:E1; [|destruct (c <? 2048) eqn:E2; [|destruct (c <? 65536) eqn:E3]]; cbn [app].
  - apply dec1. lia.
  - apply dec2; lia.
  - apply dec3; lia.
  - apply dec4; lia.
Qed.

Lemma encode_char_length c : (1 <= length (utf8_encode_char c))%nat.
Proof.
  unfold utf8_encode_char.
  destruct (c <? 128); [|destruct (c <? 2048); [|destruct (c <? 65536)]]; cbn [length]; lia.
Qed.

Lemma roundtrip_fuel s : forall f,
  forallb scalar s = true -> (length (utf8_encode s) <= f)%nat ->
  utf8_decode_fuel f (utf8_encode s) = Ok s.
Proof.
  induction s as [|c s IH]; intros f Hs Hf.
  - destruct f; reflexivity.
  - cbn [forallb] in Hs. apply andb_true_iff in Hs as [Hc Hs].
    rewrite encode_cons in *. rewrite app_length in Hf.
    pose proof (encode_char_length c) as Hl.
    destruct f as [|f]; [lia|].
    rewrite (decode_encode_char f c _ Hc).
    rewrite (IH f Hs) by lia. reflexivity.
Qed.

Lemma utf8_roundtrip : utf8_roundtrip_stmt.
Proof. intros s Hs. unfold utf8_decode. apply roundtrip_fuel; [exact Hs | lia]. Qed.

(** * Decode then encode *)
Lemma enc1 b0 : b0 < 128 -> utf8_encode_char b0 = [b0] /\ scalar b0 = true.
Proof.
  intro H. unfold utf8_encode_char, scalar. replace (b0 <? 128) with true by lia. split; [reflexivity | lia].
Qed.

Lemma enc2 b0 b1 c :
  194 <= b0 < 224 -> 128 <= b1 < 192 -> c = (b0 - 192) * 64 + (b1 - 128) ->
  utf8_encode_char c = [b0; b1] /\ scalar c = true.
Proof.
  intros H0 H1 Hc. assert (Hr : 128 <= c < 2048) by lia.
  unfold utf8_encode_char, scalar.
  replace (c <? 128) with false by lia. replace (c <? 2048) with true by lia.
  split; [|lia]. f_equal; [lia|]. f_equal; lia.
Qed.

Lemma enc3 b0 b1 b2 c :
  224 <= b0 < 240 -> 128 <= b1 < 192 -> 128 <= b2 < 192 ->
  (b0 = 224 -> 160 <= b1) -> (b0 = 237 -> b1 < 160) ->
  c = (b0 - 224) * 4096 + (b1 - 128) * 64 + (b2 - 128) ->
  utf8_encode_char c = [b0; b1; b2] /\ scalar c = true.
Proof.
  intros H0 H1 H2 Ho Hs Hc. assert (Hr : 2048 <= c < 65536) by lia.
  unfold utf8_encode_char, scalar.
  replace (c <? 128) with false by lia. replace (c <? 2048) with false by lia.
  replace (c <? 65536) with true by lia.
  split; [|lia]. f_equal; [lia|]. f_equal; [lia|]. f_equal; lia.
Qed.

Lemma enc4 b0 b1 b2 b3 c :
  240 <= b0 < 245 -> 128 <= b1 < 192 -> 128 <= b2 < 192 -> 128 <= b3 < 192 ->
  (b0 = 240 -> 144 <= b1) -> (b0 = 244 -> b1 < 144) ->
  c = (b0 - 240) * 262144 + (b1 - 128) * 4096 + (b2 - 128) * 64 + (b3 - 128) ->
  utf8_encode_char c = [b0; b1; b2; b3] /\ scalar c = true.
Proof.
  intros H0 H1 H2 H3 Ho Hs Hc. assert (Hr : 65536 <= c < 1114112) by lia.
  unfold utf8_encode_char, scalar.
  replace (c <? 128) with false by lia. replace (c <? 2048) with false by lia.
  replace (c <? 65536) with false by lia.
  split; [|lia]. f_equal; [lia|]. f_equal; [lia|]. f_equal; [lia|]. f_equal; lia.
Qed.

Lemma canonical_step c bs r s' s :
  utf8_encode_char c = bs /\ scalar c = true ->
  forallb scalar s' = true /\ utf8_encode s' = r ->
  Ok (c :: s') = Ok s ->
  forallb scalar s = true /\ utf8_encode s = bs ++ r.
Proof.
  intros [He Hc] [Hs Hr] Heq. inversion Heq; subst s. cbn [forallb]. rewrite Hc, Hs, encode_cons, He, Hr.
  split; reflexivity.
Qed.

Lemma canonical_fuel f : forall b s,
  utf8_decode_fuel f b = Ok s -> forallb scalar s = true /\ utf8_encode s = b.
Proof.
  induction f as [|f IH]; intros b s H.
  - destruct b; cbn in H; [|discriminate]. inversion H. split; reflexivity.
  - destruct b as [|b0 r0]; cbn [utf8_decode_fuel] in H.
    { inversion H. split; reflexivity. }
    destruct (b0 <? 128) eqn:E1.
    { apply bind_ok in H as (s' & Hs' & Heq). apply IH in Hs'.
      apply (canonical_step b0 [b0] r0 s' s); [apply enc1; lia | exact Hs' | exact Heq]. }
    destruct ((194 <=? b0) && (b0 <? 224)) eqn:E2.
    { destruct r0 as [|b1 r1]; [discriminate|].
      destruct (is_cont b1) eqn:C1; [|discriminate]. unfold is_cont in C1.
      apply bind_ok in H as (s' & Hs' & Heq). apply IH in Hs'.
      refine (canonical_step _ [b0; b1] r1 s' s _ Hs' Heq).
      apply enc2; lia. }
    destruct ((224 <=? b0) && (b0 <? 240)) eqn:E3.
    { destruct r0 as [|b1 [|b2 r2]]; try discriminate.
      match type of H with (if ?g then _ else _) = _ => destruct g eqn:G; [|discriminate] end.
      unfold is_cont in G.
      apply bind_ok in H as (s' & Hs' & Heq). apply IH in Hs'.
      refine (canonical_step _ [b0; b1; b2] r2 s' s _ Hs' Heq).
      apply enc3; lia. }
    destruct ((240 <=? b0) && (b0 <? 245)) eqn:E4; [|discriminate].
    destruct r0 as [|b1 [|b2 [|b3 r3]]]; try discriminate.
    match type of H with (if ?g then _ else _) = _ => destruct g eqn:G; [|discriminate] end.
    unfold is_cont in G.
    apply bind_ok in H as (s' & Hs' & Heq). apply IH in Hs'.
    refine (canonical_step _ [b0; b1; b2; b3] r3 s' s _ Hs' Heq).
    apply enc4; lia.
Qed.

Lemma utf8_canonical : utf8_canonical_stmt.
Proof. intros b s H. exact (canonical_fuel _ b s H). Qed.

(** * Encoded bytes are bytes *)
Lemma encode_char_bytes c : scalar c = true -> Forall (fun x => x < 256) (utf8_encode_char c).
Proof.
  intro Hs. unfold scalar in Hs. unfold utf8_encode_char.
  destruct (c <? 128) eqn:E1; [|destruct (c <? 2048) eqn:E2; [|destruct (c <? 65536) eqn:E3]];
    repeat constructor; lia.
Qed.

Lemma utf8_bytes : utf8_bytes_stmt.
Proof.
  intros s. induction s as [|c s IH]; intro Hs.
  - constructor.
  - cbn [forallb] in Hs. apply andb_true_iff in Hs as [Hc Hs].
    rewrite encode_cons. apply Forall_app. split; [apply encode_char_bytes; exact Hc | apply IH; exact Hs].
Qed.

(** * utf-8-sig *)
Lemma utf8_sig_bom : utf8_sig_bom_stmt.
Proof.
  intros s Hs. change (UTF8_BOM ++ utf8_encode s) with (239 :: 187 :: 191 :: utf8_encode s).
  unfold utf8_sig_decode. apply utf8_roundtrip. exact Hs.
Qed.

Ltac split_N n :=
  destruct n as [|n]; [try reflexivity | repeat (destruct n as [n|n|]; try reflexivity)].

Lemma sig_decode_nobom b :
  (forall r, b <> 239 :: 187 :: 191 :: r) -> utf8_sig_decode b = utf8_decode b.
Proof.
  intro H. unfold utf8_sig_decode.
  destruct b as [|b0 [|b1 [|b2 r]]].
  - reflexivity.
  - split_N b0.
  - split_N b0; split_N b1.
  - split_N b0; split_N b1; split_N b2. exfalso. eapply H. reflexivity.
Qed.

Lemma encode_bom s : utf8_encode (BOM :: s) = 239 :: 187 :: 191 :: utf8_encode s.
Proof. reflexivity. Qed.

Lemma decode_bom_prefix r s :
  utf8_decode (239 :: 187 :: 191 :: r) = Ok s -> exists s', s = BOM :: s'.
Proof.
  unfold utf8_decode. change (length (239 :: 187 :: 191 :: r)) with (S (S (S (length r)))).
  rewrite (dec3 _ 239 187 191 r 65279) by lia.
  intro H. apply bind_ok in H as (s' & _ & Heq). inversion Heq. exists s'. reflexivity.
Qed.

Lemma utf8_sig_nobom : utf8_sig_nobom_stmt.
Proof.
  intros s Hs. destruct s as [|c s']; [reflexivity|].
  cbn [strip_bom]. destruct (N.eqb_spec c BOM) as [->|Hne].
  - rewrite encode_bom. unfold utf8_sig_decode. apply utf8_roundtrip.
    cbn [forallb] in Hs. apply andb_true_iff in Hs as [_ Hs]. exact Hs.
  - rewrite sig_decode_nobom; [apply utf8_roundtrip; exact Hs|].
    intros r Hr. pose proof (utf8_roundtrip _ Hs) as Hd. rewrite Hr in Hd.
    apply decode_bom_prefix in Hd as [s'' Heq]. inversion Heq. contradiction.
Qed.

(** * C06 at byte level *)
Lemma scalar_join nl lines :
  nl = NL_LF \/ nl = NL_CRLF -> forallb scalar (concat lines) = true -> forallb scalar (join nl lines) = true.
Proof.
  intros Hnl. induction lines as [|l lines IH]; intro H; [reflexivity|].
  unfold join in *. cbn [map concat] in *. rewrite !forallb_app in *.
  apply andb_true_iff in H as [Hl H]. rewrite Hl, (IH H).
  destruct Hnl as [-> | ->]; reflexivity.
Qed.

Lemma strip_bom_join nl lines :
  nl = NL_LF \/ nl = NL_CRLF ->
  (match lines with (ch :: _) :: _ => ch <> BOM | _ => True end) ->
  strip_bom (join nl lines) = join nl lines.
Proof.
  intros Hnl Hfirst. destruct lines as [|[|ch l] lines].
  - reflexivity.
  - destruct Hnl as [-> | ->]; reflexivity.
  - unfold join; cbn [map concat app strip_bom]. apply N.eqb_neq in Hfirst. rewrite Hfirst. reflexivity.
Qed.

Lemma C06_bom_bytes : C06_bom_bytes_stmt.
Proof.
  intros c lines want bom nl Hnl Hl Hfirst Hsc. unfold from_filepath_bytes.
  pose proof (scalar_join nl lines Hnl Hsc) as Hj.
  destruct bom.
  - rewrite (utf8_sig_bom _ Hj). cbn [bind]. rewrite (universal_nl_join nl lines Hnl Hl). reflexivity.
  - cbn [app]. rewrite (utf8_sig_nobom _ Hj). cbn [bind].
    rewrite (strip_bom_join nl lines Hnl Hfirst), (universal_nl_join nl lines Hnl Hl). reflexivity.
Qed.

(** * Undecodable bytes are a ValueError *)
Lemma error_kind_fuel f : forall b e,
  (length b <= f)%nat -> utf8_decode_fuel f b = Err e -> e = EValue.
Proof.
  induction f as [|f IH]; intros b e Hlen H.
  - destruct b; cbn [length] in Hlen; [discriminate | lia].
  - destruct b as [|b0 r0]; cbn [utf8_decode_fuel] in H; [discriminate|]. cbn [length] in Hlen.
    destruct (b0 <? 128).
    { apply bind_err in H as [H | (a & _ & H)]; [|discriminate]. apply (IH r0 e); [lia | exact H]. }
    destruct ((194 <=? b0) && (b0 <? 224)).
    { destruct r0 as [|b1 r1]; [congruence|]. cbn [length] in Hlen.
      destruct (is_cont b1); [|congruence].
      apply bind_err in H as [H | (a & _ & H)]; [|discriminate]. apply (IH r1 e); [lia | exact H]. }
    destruct ((224 <=? b0) && (b0 <? 240)).
    { destruct r0 as [|b1 [|b2 r2]]; try congruence. cbn [length] in Hlen.
      match type of H with (if ?g then _ else _) = _ => destruct g; [|congruence] end.
      apply bind_err in H as [H | (a & _ & H)]; [|discriminate]. apply (IH r2 e); [lia | exact H]. }
    destruct ((240 <=? b0) && (b0 <? 245)); [|congruence].
    destruct r0 as [|b1 [|b2 [|b3 r3]]]; try congruence. cbn [length] in Hlen.
    match type of H with (if ?g then _ else _) = _ => destruct g; [|congruence] end.
    apply bind_err in H as [H | (a & _ & H)]; [|discriminate]. apply (IH r3 e); [lia | exact H].
Qed.

Lemma utf8_error_kind : utf8_error_kind_stmt.
Proof. intros b e H. apply (error_kind_fuel (length b) b e); [lia | exact H]. Qed.
