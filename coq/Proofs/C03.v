(** Proofs/C03.v — sustains, end tick, end time, last note end. *)
From CP Require Import Base.Prelude Base.Str Base.Regex Base.Cfg Base.Float64 Base.Timedelta
  Model.Lines Model.Sync Model.Instrument Spec.C03 Proofs.C02.
Open Scope Z_scope.

Definition somes (l : list (option Z)) : list Z :=
  flat_map (fun o => match o with Some v => [v] | None => [] end) l.

Lemma in_somes l v : In v (somes l) <-> In (Some v) l.
Proof.
  unfold somes. rewrite in_flat_map. split.
  - intros ([x|] & Hx & Hv); cbn in Hv; [destruct Hv as [->|[]]; exact Hx|destruct Hv].
  - intro H. exists (Some v). split; [exact H|left; reflexivity].
Qed.

Definition lstep (l : list (option Z)) (d : ndata) : list (option Z) :=
  if is_5_note (nd_idx d) then set_nth (Z.to_nat (nd_idx d)) (Some (nd_sus d)) l else l.

Lemma lane_sustains_fold g : lane_sustains g = fold_left lstep g no_sustains.
Proof. reflexivity. Qed.

Lemma ls_snoc g d : lane_sustains (g ++ [d]) = lstep (lane_sustains g) d.
Proof. rewrite !lane_sustains_fold, fold_left_app. reflexivity. Qed.

Lemma set_nth_nth_opt n (x : option Z) l k : (n < length l)%nat ->
  nth k (set_nth n x l) None = if Nat.eqb k n then x else nth k l None.
Proof.
  revert n k; induction l as [|h t IH]; intros [|n] [|k] Hn; cbn in *; try lia; auto.
  apply IH; lia.
Qed.

Lemma ls_length g : length (lane_sustains g) = 5%nat.
Proof.
  induction g as [|d g IH] using rev_ind; [reflexivity|].
  rewrite ls_snoc. unfold lstep. destruct (is_5_note (nd_idx d)); [rewrite set_nth_length|]; exact IH.
Qed.

Lemma lstep_nth l d k : length l = 5%nat -> (k < 5)%nat ->
  nth k (lstep l d) None =
    if is_5_note (nd_idx d) && (nd_idx d =? Z.of_nat k) then Some (nd_sus d) else nth k l None.
Proof.
  intros Hl Hk. unfold lstep, is_5_note. destruct ((0 <=? nd_idx d) && (nd_idx d <=? 4)) eqn:E; cbn [andb].
  - rewrite set_nth_nth_opt by lia. destruct (nd_idx d =? Z.of_nat k) eqn:Ek.
    + replace (Nat.eqb k (Z.to_nat (nd_idx d))) with true; [reflexivity|]. symmetry. apply Nat.eqb_eq. lia.
    + replace (Nat.eqb k (Z.to_nat (nd_idx d))) with false; [reflexivity|]. symmetry. apply Nat.eqb_neq. lia.
  - reflexivity.
Qed.

(** P2: every stored length was written by a lane line of that lane. *)
Lemma ls_sound g : forall k s, (k < 5)%nat -> nth k (lane_sustains g) None = Some s ->
  exists d, In d g /\ nd_idx d = Z.of_nat k /\ nd_sus d = s.
Proof.
  induction g as [|d g IH] using rev_ind; intros k s Hk H.
  - do 5 (destruct k as [|k]; [discriminate|]). lia.
  - rewrite ls_snoc, lstep_nth in H by (auto using ls_length).
    destruct (is_5_note (nd_idx d) && (nd_idx d =? Z.of_nat k)) eqn:E.
    + inversion H; subst. exists d. split; [apply in_or_app; right; left; reflexivity|]. split; [lia|reflexivity].
    + destruct (IH k s Hk H) as (d0 & Hd0 & Hi & Hs). exists d0. split; [apply in_or_app; left; exact Hd0|auto].
Qed.

(** P3: a lane that was written holds a length. *)
Lemma ls_complete g : forall k, (k < 5)%nat -> (exists d, In d g /\ nd_idx d = Z.of_nat k) ->
  exists s, nth k (lane_sustains g) None = Some s.
Proof.
  induction g as [|d g IH] using rev_ind; intros k Hk (d0 & Hd0 & Hi); [destruct Hd0|].
  rewrite ls_snoc, lstep_nth by (auto using ls_length).
  destruct (is_5_note (nd_idx d) && (nd_idx d =? Z.of_nat k)) eqn:E; [eauto|].
  apply in_app_or in Hd0 as [Hd0|[->|[]]].
  - apply IH; [exact Hk|eauto].
  - unfold is_5_note in E. lia.
Qed.

Lemma In_nth5 (l : list (option Z)) o : length l = 5%nat -> In o l -> exists k, (k < 5)%nat /\ nth k l None = o.
Proof. intros Hl H. apply (In_nth l o None) in H as (k & Hk & Hn). exists k. split; [lia|exact Hn]. Qed.

Lemma forallb_slots l s0 :
  forallb (fun o : option Z => match o with None => true | Some v => v =? s0 end) l = true <->
  forall v, In (Some v) l -> v = s0.
Proof.
  rewrite forallb_forall. split.
  - intros H v Hv. specialize (H _ Hv). cbn in H. lia.
  - intros H [v|] Hv; [apply Z.eqb_eq, H; exact Hv|reflexivity].
Qed.

Lemma find_open_none g : (forall d, In d g -> ~ is_open d) -> find (fun d => nd_idx d =? IDX_OPEN) g = None.
Proof.
  intro H. destruct (find _ g) as [d|] eqn:E; [|reflexivity].
  apply find_some in E as [Hin Hd]. exfalso. apply (H d Hin). unfold is_open. lia.
Qed.

Lemma C03_open : C03_open_stmt.
Proof.
  intros g d Hin Hop Hall. unfold complex_sustain.
  destruct (find (fun d0 => nd_idx d0 =? IDX_OPEN) g) as [d'|] eqn:E.
  - apply find_some in E as [Hin' Hd']. rewrite (Hall d' Hin'); [reflexivity|]. unfold is_open. lia.
  - exfalso. eapply find_none in E; [|exact Hin]. unfold is_open in Hop. cbn in E. lia.
Qed.

Lemma refined_all_none l : somes l = [] -> refined_sustain l = SInt 0.
Proof. unfold refined_sustain. fold (somes l). intros ->. reflexivity. Qed.

Lemma C03_flags_only : C03_flags_only_stmt.
Proof.
  intros g Hg. unfold complex_sustain. rewrite find_open_none.
  - f_equal. apply refined_all_none. destruct (somes (lane_sustains g)) as [|v vs] eqn:E; [reflexivity|].
    assert (Hv : In v (somes (lane_sustains g))) by (rewrite E; left; reflexivity).
    apply in_somes in Hv. apply In_nth5 in Hv as (k & Hk & Hn); [|apply ls_length].
    apply ls_sound in Hn as (d & Hd & Hi & _); [|exact Hk].
    destruct (Hg d Hd) as [H|H]; unfold IDX_FORCED, IDX_TAP in H; lia.
  - intros d Hd Ho. destruct (Hg d Hd) as [H|H]; unfold is_open, IDX_OPEN, IDX_FORCED, IDX_TAP in *; lia.
Qed.

Lemma lane_k d : is_lane d -> exists k, (k < 5)%nat /\ nd_idx d = Z.of_nat k.
Proof. unfold is_lane. intro H. exists (Z.to_nat (nd_idx d)). lia. Qed.

Lemma C03_uniform : C03_uniform_stmt.
Proof.
  intros g n Hno (d & Hd & Hl) Hall. unfold complex_sustain. rewrite find_open_none by exact Hno.
  f_equal. unfold refined_sustain. fold (somes (lane_sustains g)).
  assert (Hvals : forall v, In (Some v) (lane_sustains g) -> v = n).
  { intros v Hv. apply In_nth5 in Hv as (k & Hk & Hn); [|apply ls_length].
    apply ls_sound in Hn as (d0 & Hd0 & Hi & <-); [|exact Hk]. apply Hall; [exact Hd0|]. unfold is_lane. lia. }
  destruct (lane_k d Hl) as (k & Hk & Hi).
  destruct (ls_complete g k Hk (ex_intro _ d (conj Hd Hi))) as (s & Hs).
  assert (Hin : In (Some s) (lane_sustains g)).
  { rewrite <- Hs. apply nth_In. rewrite ls_length. exact Hk. }
  destruct (somes (lane_sustains g)) as [|s0 rest] eqn:E.
  - apply in_somes in Hin. rewrite E in Hin. destruct Hin.
  - assert (Hs0 : s0 = n). { apply Hvals. apply in_somes. rewrite E. left; reflexivity. }
    subst s0. replace (forallb _ (lane_sustains g)) with true; [reflexivity|].
    symmetry. apply forallb_slots. exact Hvals.
Qed.

Lemma C03_tuple : C03_tuple_stmt.
Proof.
  intros g Hno Hone (d & d' & Hd & Hd' & Hl & Hl' & Hne).
  assert (Hchar : forall k, (k < 5)%nat -> forall s,
            nth k (lane_sustains g) None = Some s <-> exists d0, In d0 g /\ nd_idx d0 = Z.of_nat k /\ nd_sus d0 = s).
  { intros k Hk s. split; [apply ls_sound; exact Hk|].
    intros (d0 & Hd0 & Hi & Hs). destruct (ls_complete g k Hk (ex_intro _ d0 (conj Hd0 Hi))) as (s' & Hs').
    rewrite Hs'. f_equal. apply ls_sound in Hs' as (d1 & Hd1 & Hi1 & <-); [|exact Hk].
    rewrite <- Hs. symmetry. apply Hone; auto; [unfold is_lane; lia|congruence]. }
  exists (lane_sustains g). split; [|split; [apply ls_length|exact Hchar]].
  unfold complex_sustain. rewrite find_open_none by exact Hno. f_equal.
  unfold refined_sustain. fold (somes (lane_sustains g)).
  destruct (lane_k d Hl) as (k & Hk & Hi). destruct (lane_k d' Hl') as (k' & Hk' & Hi').
  assert (H1 : In (Some (nd_sus d)) (lane_sustains g)).
  { replace (Some (nd_sus d)) with (nth k (lane_sustains g) None); [apply nth_In; rewrite ls_length; exact Hk|].
    apply Hchar; [exact Hk|]. exists d. auto. }
  assert (H2 : In (Some (nd_sus d')) (lane_sustains g)).
  { replace (Some (nd_sus d')) with (nth k' (lane_sustains g) None); [apply nth_In; rewrite ls_length; exact Hk'|].
    apply Hchar; [exact Hk'|]. exists d'. auto. }
  destruct (somes (lane_sustains g)) as [|s0 rest] eqn:E.
  - apply in_somes in H1. rewrite E in H1. destruct H1.
  - destruct (forallb _ (lane_sustains g)) eqn:Ef; [|reflexivity].
    exfalso. rewrite forallb_slots in Ef. rewrite (Ef _ H1), (Ef _ H2) in Hne. congruence.
Qed.

Lemma find_filter_imp {A} (p q : A -> bool) l : (forall x, p x = true -> q x = true) ->
  find p (filter q l) = find p l.
Proof.
  intro H. induction l as [|x l IH]; cbn; [reflexivity|].
  destruct (q x) eqn:Eq; cbn.
  - destruct (p x); [reflexivity|exact IH].
  - destruct (p x) eqn:Ep; [rewrite (H x Ep) in Eq; discriminate|exact IH].
Qed.

Lemma C03_flags_ignored : C03_flags_ignored_stmt.
Proof.
  intro g. unfold complex_sustain.
  rewrite find_filter_imp.
  2:{ intros x Hx. unfold IDX_OPEN, IDX_FORCED, IDX_TAP in *. lia. }
  destruct (find _ g); [reflexivity|]. f_equal. f_equal.
  rewrite !lane_sustains_fold. generalize no_sustains as l.
  induction g as [|d g IH]; intro l; cbn [filter fold_left]; [reflexivity|].
  destruct (negb ((nd_idx d =? IDX_FORCED) || (nd_idx d =? IDX_TAP))) eqn:E; cbn [fold_left].
  - apply IH.
  - rewrite IH. f_equal. unfold lstep, is_5_note, IDX_FORCED, IDX_TAP in *.
    replace ((0 <=? nd_idx d) && (nd_idx d <=? 4)) with false by lia. reflexivity.
Qed.

Lemma fold_max_spec vs : forall v, In (fold_left Z.max vs v) (v :: vs) /\
  forall x, In x (v :: vs) -> x <= fold_left Z.max vs v.
Proof.
  induction vs as [|w vs IH]; intro v; cbn [fold_left].
  - split; [left; reflexivity|]. intros x [->|[]]. lia.
  - destruct (IH (Z.max v w)) as [Hin Hle]. split.
    + destruct Hin as [Hin|Hin]; [|right; right; exact Hin].
      rewrite <- Hin. destruct (Z.max_spec v w) as [[_ ->]|[_ ->]]; [right; left|left]; reflexivity.
    + intros x [->|[->|Hx]].
      * specialize (Hle (Z.max x w) (or_introl eq_refl)). lia.
      * specialize (Hle (Z.max v x) (or_introl eq_refl)). lia.
      * apply Hle. right; exact Hx.
Qed.

Lemma C03_longest : C03_longest_stmt.
Proof.
  intros [n|l] Hne; cbn [sustain_values longest_sustain] in *.
  - exists n. split; [reflexivity|]. split; [left; reflexivity|]. intros v [->|[]]. lia.
  - fold (somes l) in *. destruct (somes l) as [|v vs]; [congruence|].
    exists (fold_left Z.max vs v). split; [reflexivity|]. apply fold_max_spec.
Qed.

Lemma C03_longest_total : C03_longest_total_stmt.
Proof.
  intros g s H. unfold complex_sustain in H.
  destruct (find _ g); inversion H; subst; cbn; [discriminate|].
  unfold refined_sustain. fold (somes (lane_sustains g)).
  destruct (somes (lane_sustains g)) as [|s0 rest] eqn:E; cbn; [discriminate|].
  destruct (forallb _ _); cbn; [discriminate|]. fold (somes (lane_sustains g)). rewrite E. discriminate.
Qed.

Lemma C03_event : C03_event_stmt.
Proof.
  intros c B sps g prev hint cursor e hint' cursor' H.
  unfold note_from_group in H. destruct g as [|d0 g']; [discriminate|].
  apply bind_ok in H as (sus & Hsus & H).
  apply bind_ok in H as ([ts idx] & Hts & H).
  apply bind_ok in H as (h & Hh & H).
  apply bind_ok in H as ([spd cur'] & Hsp & H).
  apply bind_ok in H as (longest & Hlong & H).
  apply bind_ok in H as ([end_ts idx'] & Hend & H).
  inversion H; subst. cbn. split; [exact Hsus|].
  exists longest, idx'. split; [exact Hlong|exact Hend].
Qed.

Lemma C03_last : C03_last_stmt.
Proof.
  intro tr. unfold last_note_end. destruct (it_notes tr) as [|e es].
  - split; [tauto|]. intros m H; discriminate.
  - split; [split; discriminate|]. intros m H. inversion H; subst m.
    destruct (fold_max_spec (map n_end_ts es) (n_end_ts e)) as [Hin Hle]. split.
    + destruct Hin as [Hin|Hin].
      * exists e. split; [left; reflexivity|congruence].
      * apply in_map_iff in Hin as (e' & He' & Hin'). exists e'. split; [right; exact Hin'|exact He'].
    + intros e' [<-|He']; apply Hle; [left; reflexivity|right; apply in_map; exact He'].
Qed.

Lemma C03_refuted_pinned : C03_refuted_pinned_stmt.
Proof.
  exists [ {| nd_tick := 100; nd_idx := 5; nd_sus := 0 |}; {| nd_tick := 100; nd_idx := 7; nd_sus := 50 |} ],
         {| nd_tick := 100; nd_idx := 7; nd_sus := 50 |}.
  split; [right; left; reflexivity|]. split; [reflexivity|]. split.
  - intros d' [<-|[<-|[]]] Ho; [unfold is_open in Ho; cbn in Ho; discriminate|reflexivity].
  - cbn. discriminate.
Qed.
