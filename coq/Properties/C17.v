(** Properties/C17.v — Parsing is a pure function of the text, free of history and schedule.

    Model: the four lru_cache tables are explicit caches (any eviction at any time), a parse is a program
    in the free monad over memoised calls (Spec/C17.v).  The statements of Spec/C17.v were first written
    with the invariant "what a look-up returns is the function value" ([CacheInv]); that invariant is too
    weak under eviction (a shadowed stale entry can be exposed) and four of the five statements are
    refuted below — a defect of the first formulation, not of the code: Python's tables start empty and
    only ever receive function values.  The theorems that matter quantify over every cache REACHABLE
    from the empty one by memoised calls and arbitrary evictions, and keep the original conclusions. *)
From Coq Require Import List.
From CP Require Import Base.Prelude Spec.C17 Proofs.C17 Model.Instrument Model.InstrumentMemo Proofs.C17Instr.

Theorem C17_inv_call :
  forall table key value table_eqb key_eqb,
    (forall a b, table_eqb a b = true <-> a = b) -> (forall a b, key_eqb a b = true <-> a = b) ->
    forall f, C17_inv_call_stmt table key value table_eqb key_eqb f.
Proof. exact Proofs.C17.C17_inv_call. Qed.

(** Every history of programs (errors included: a failing parse is a program returning an error value),
    every interleaving of threads at memoised-call granularity, every eviction, on shared tables in any
    reachable state: each program returns exactly its cache-free result. *)
Theorem C17_cached_reachable :
  forall (table key value : Type) (table_eqb : table -> table -> bool) (key_eqb : key -> key -> bool),
    (forall a b, table_eqb a b = true <-> a = b) -> (forall a b, key_eqb a b = true <-> a = b) ->
    forall (f : table -> key -> value) A ev n (p : prog table key value A) c,
      Reachable table key value table_eqb key_eqb f c ->
      Reachable table key value table_eqb key_eqb f (fst (run_cached table key value table_eqb key_eqb f ev n p c)) /\
      CacheInv table key value table_eqb key_eqb f (fst (run_cached table key value table_eqb key_eqb f ev n p c)) /\
      snd (run_cached table key value table_eqb key_eqb f ev n p c) = run_pure table key value f p.
Proof. exact Proofs.C17.C17_cached_reachable. Qed.

Theorem C17_history_reachable :
  forall (table key value : Type) (table_eqb : table -> table -> bool) (key_eqb : key -> key -> bool),
    (forall a b, table_eqb a b = true <-> a = b) -> (forall a b, key_eqb a b = true <-> a = b) ->
    forall (f : table -> key -> value) A ev (ps : list (prog table key value A)) c,
      Reachable table key value table_eqb key_eqb f c ->
      Reachable table key value table_eqb key_eqb f (fst (run_history table key value table_eqb key_eqb f ev ps c)) /\
      CacheInv table key value table_eqb key_eqb f (fst (run_history table key value table_eqb key_eqb f ev ps c)) /\
      snd (run_history table key value table_eqb key_eqb f ev ps c) = map (run_pure table key value f) ps.
Proof. exact Proofs.C17.C17_history_reachable. Qed.

Theorem C17_schedule_reachable :
  forall (table key value : Type) (table_eqb : table -> table -> bool) (key_eqb : key -> key -> bool),
    (forall a b, table_eqb a b = true <-> a = b) -> (forall a b, key_eqb a b = true <-> a = b) ->
    forall (f : table -> key -> value) A ev sched n (pool : list (prog table key value A)) c,
      Reachable table key value table_eqb key_eqb f c ->
      Reachable table key value table_eqb key_eqb f (fst (run_sched table key value table_eqb key_eqb f ev sched n pool c)) /\
      CacheInv table key value table_eqb key_eqb f (fst (run_sched table key value table_eqb key_eqb f ev sched n pool c)) /\
      map (run_pure table key value f) (snd (run_sched table key value table_eqb key_eqb f ev sched n pool c))
      = map (run_pure table key value f) pool.
Proof. exact Proofs.C17.C17_schedule_reachable. Qed.

(** The first formulation, refuted (kept visible). *)
Theorem C17_inv_evict_refuted :
  ~ (forall table key value table_eqb key_eqb,
       (forall a b, table_eqb a b = true <-> a = b) -> (forall a b, key_eqb a b = true <-> a = b) ->
       forall f, C17_inv_evict_stmt table key value table_eqb key_eqb f).
Proof. exact Proofs.C17.C17_inv_evict_refuted. Qed.

(** chartparse: the note-event builder written as a program whose memoised calls are exactly the calls
    the Python makes to Note.is_chord, NoteTrackIndex.is_5_note, _refined_sustain_tuple and
    note_duration_to_ticks; its cache-free interpretation IS the model's parser … *)
Theorem C17_builder_is_the_parser :
  forall c B sps groups prev hint cursor,
    mrun_pure (build_notes_prog c B sps groups prev hint cursor) = build_notes c B sps groups prev hint cursor.
Proof. exact Proofs.C17Instr.build_notes_prog_pure. Qed.

(** … hence any history of note sections, after any other use of the tables, with any evictions, … *)
Theorem C17_sections_after_any_history :
  forall A ev0 (before : list (mprog A)) ev (ss : list note_section),
    snd (mrun_history ev (map section_prog ss) (fst (mrun_history ev0 before nil))) = map section_notes ss.
Proof. exact (@Proofs.C17Instr.C17_sections_after_any_history). Qed.

(** … and any interleaving of concurrent parses yield exactly [build_notes] of each section. *)
Theorem C17_sections_schedule_from_empty :
  forall ev sched n (ss : list note_section),
    map mrun_pure (snd (mrun_sched ev sched n (map section_prog ss) nil)) = map section_notes ss.
Proof. exact Proofs.C17Instr.C17_sections_schedule_from_empty. Qed.
