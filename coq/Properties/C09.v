(** Properties/C09.v — Global events are classified lyric / section / text with verbatim values. *)
From CP Require Import Base.Cfg Spec.C09 Proofs.C09.

Theorem C09_lyric : forall c, C09_lyric_stmt c.                    Proof. exact Proofs.C09.C09_lyric. Qed.
Theorem C09_section : forall c, C09_section_stmt c.                Proof. exact Proofs.C09.C09_section. Qed.
Theorem C09_text : forall c, C09_text_stmt c.                      Proof. exact Proofs.C09.C09_text. Qed.
Theorem C09_lyric_only : forall c, C09_lyric_only_stmt c.          Proof. exact Proofs.C09.C09_lyric_only. Qed.
Theorem C09_section_only : forall c, C09_section_only_stmt c.      Proof. exact Proofs.C09.C09_section_only. Qed.
Theorem C09_text_only : forall c, C09_text_only_stmt c.            Proof. exact Proofs.C09.C09_text_only. Qed.
Theorem C09_lyric_section_disjoint : forall c, C09_lyric_section_disjoint_stmt c.
Proof. exact Proofs.C09.C09_lyric_section_disjoint. Qed.
Theorem C09_partition : forall c, C09_partition_stmt c.            Proof. exact Proofs.C09.C09_partition. Qed.

(** Capstone: a rendered [Events] body is classified line by line into exactly the written events. *)
From CP Require Import Spec.Render Proofs.Render.
Theorem render_events : render_events_stmt.   Proof. exact Proofs.Render.render_events. Qed.
