(** Properties/C04.v — Strum / HOPO / tap state follows the natural-HOPO rule and flags. *)
From CP Require Import Spec.C04 Proofs.C04 Proofs.FloatC04.

Theorem C04_rule : C04_rule_stmt.                  Proof. exact Proofs.C04.C04_rule. Qed.
Theorem C04_first : C04_first_stmt.                Proof. exact Proofs.C04.C04_first. Qed.
Theorem C04_first_forced : C04_first_forced_stmt.  Proof. exact Proofs.C04.C04_first_forced. Qed.
Theorem C04_chord : C04_chord_stmt.                Proof. exact Proofs.C04.C04_chord. Qed.
Theorem C04_threshold : C04_threshold_stmt.        Proof. exact Proofs.FloatC04.C04_threshold_float. Qed.
Theorem C04_closed : C04_closed_stmt.              Proof. exact (Proofs.C04.C04_closed_from C04_threshold). Qed.
Theorem C04_track : C04_track_stmt.                Proof. exact (Proofs.C04.C04_track_from C04_threshold). Qed.

(** Chart level: every track of every successfully parsed chart (through [from_file]). *)
From CP Require Import Spec.ChartNotes Proofs.ChartNotes.
Theorem C04_chart : C04_chart_stmt.  Proof. exact Proofs.ChartNotes.C04_chart. Qed.
