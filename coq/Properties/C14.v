(** Properties/C14.v — Unrecognised lines are skipped locally; each line is claimed at most once. *)
From CP Require Import Spec.C14 Proofs.C14.

Theorem C14_conservation : C14_conservation_stmt.      Proof. exact Proofs.C14.C14_conservation. Qed.
Theorem C14_count : C14_count_stmt.                    Proof. exact Proofs.C14.C14_count. Qed.
Theorem C14_local : C14_local_stmt.                    Proof. exact Proofs.C14.C14_local. Qed.
Theorem C14_append : C14_append_stmt.                  Proof. exact Proofs.C14.C14_append. Qed.
Theorem C14_data_unchanged : C14_data_unchanged_stmt.  Proof. exact Proofs.C14.C14_data_unchanged. Qed.
Theorem C14_order_indep : C14_order_indep_stmt.        Proof. exact Proofs.C14.C14_order_indep. Qed.
