(** Properties/C13.v — Track selection restricts the parse and tracks do not interfere. *)
From CP Require Import Base.Prelude Base.Cfg Model.Chart Spec.ChartSpec Spec.C13 Proofs.C13.

Theorem C13_select : C13_select_stmt.            Proof. exact Proofs.C13.C13_select. Qed.
Theorem C13_empty : C13_empty_stmt.              Proof. exact Proofs.C13.C13_empty. Qed.
Theorem C13_select_ok : C13_select_ok_stmt.      Proof. exact Proofs.C13.C13_select_ok. Qed.
Theorem C13_noninterf : C13_noninterf_stmt.      Proof. exact Proofs.C13.C13_noninterf. Qed.
(** [C13_unselected_stmt] (Spec/C13.v) quantifies over every configuration and is false for degenerate
    ones in which an instrument header coincides with the Song/SyncTrack/Events tag
    ([C13_unselected_refuted]); it holds for every configuration satisfying the chart side condition,
    which Tie/C13.v checks for the current source. *)
Theorem C13_unselected_refuted : ~ C13_unselected_stmt.  Proof. exact Proofs.C13.C13_unselected_refuted. Qed.
Theorem C13_unselected_partial :
  forall c s1 tag body body' s2 want p, cfg_ok_chart c = true ->
    header_lookup c tag = Some p -> wanted want p = false ->
    from_secs c (s1 ++ (tag, body) :: s2) want = from_secs c (s1 ++ (tag, body') :: s2) want.
Proof. exact Proofs.C13.C13_unselected_partial. Qed.
