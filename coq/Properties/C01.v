(** Properties/C01.v — Event timestamps equal the exact tempo-map time of their tick. *)
From CP Require Import Spec.FloatSpec Spec.Tempo Spec.C01 Proofs.FloatAcc Proofs.Tempo Proofs.C01.

Theorem dur_acc : dur_acc_stmt.                        Proof. exact Proofs.FloatAcc.dur_acc. Qed.
Theorem dur_zero : dur_zero_stmt.                      Proof. exact Proofs.FloatAcc.dur_zero. Qed.
Theorem built_tempo_wf : built_tempo_wf_stmt.          Proof. exact Proofs.Tempo.built_tempo_wf. Qed.
Theorem built_matches : built_matches_stmt.            Proof. exact Proofs.Tempo.built_matches. Qed.
Theorem C01_query : C01_query_stmt.                    Proof. exact Proofs.C01.C01_query. Qed.
Theorem C01_tick0 : C01_tick0_stmt.                    Proof. exact Proofs.C01.C01_tick0. Qed.
Theorem C01_tempo_events : C01_tempo_events_stmt.      Proof. exact Proofs.C01.C01_tempo_events. Qed.
Theorem C01_stored : C01_stored_stmt.                  Proof. exact Proofs.C01.C01_stored. Qed.

(** Chart level: combine [C11_file] (every timed point of a parsed chart is [stored_ok]) with
    [C01_stored]. *)
From CP Require Import Base.Prelude Base.Cfg Model.Sync Model.Chart Spec.C11 Spec.ChartTimed Proofs.ChartTimed.
From Coq Require Import Reals List.
Theorem C01_chart :
  forall c text want ch logs tm, from_file c text want = Ok (ch, logs) ->
    let B := st_bpm (c_sync ch) in
    matches_tm (evs B) tm ->
    forall e, In e (chart_points ch) -> wf_query (resolution B) tm (t_tick e) ->
      (Rabs (IZR (t_ts e) - exact_from (resolution B) tm (t_tick e)) <= slack (segments tm (t_tick e)))%R.
Proof.
  intros c text want ch logs tm H B Hm e He Hq.
  destruct (Proofs.ChartTimed.C11_file c text want ch logs H) as (Hwf & Hpts & _).
  apply (C01_stored B tm e Hwf Hm Hq).
  rewrite Forall_forall in Hpts. apply Hpts. exact He.
Qed.
