(** Properties/C01.v — Event timestamps equal the exact tempo-map time of their tick. *)
From CP Require Import Spec.FloatSpec Spec.Tempo Spec.C01 Proofs.FloatAcc Proofs.Tempo Proofs.C01.

Theorem dur_acc : dur_acc_stmt.                        Proof. exact Proofs.FloatAcc.dur_acc. Qed.
Theorem dur_zero : dur_zero_stmt.                      Proof. exact Proofs.FloatAcc.dur_zero. Qed.
Theorem built_tempo_wf : built_tempo_wf_stmt.          Proof. exact Proofs.Tempo.built_tempo_wf. Qed.
Theorem built_matches : built_matches_stmt.            Proof. exact Proofs.Tempo.built_matches. Qed.
Theorem C01_query : C01_query_stmt.                    Proof. exact Proofs.C01.C01_query. Qed.
Theorem C01_tick0 : C01_tick0_stmt.                    Proof. exact Proofs.C01.C01_tick0. Qed.
Theorem C01_tempo_events : C01_tempo_events_stmt.      Proof. exact Proofs.C01.C01_tempo_events. Qed.
Theorem C01_stored : C01_stored_stmt.                  Proof. exact Proofs.C01.C01_stored. Qed.
