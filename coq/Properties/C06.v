(** Properties/C06.v — Sections are framed and routed to the right parser and track key. *)
From CP Require Import Spec.ChartSpec Spec.C06 Proofs.ChartInv Proofs.C06.

Theorem from_file_secs : from_file_secs_stmt.            Proof. exact Proofs.ChartInv.from_file_secs. Qed.
Theorem C06_frame_gen : C06_frame_gen_stmt.              Proof. exact Proofs.C06.C06_frame_gen. Qed.
Theorem C06_frame : C06_frame_stmt.                      Proof. exact Proofs.C06.C06_frame. Qed.
Theorem C06_split : C06_split_stmt.                      Proof. exact Proofs.C06.C06_split. Qed.
Theorem C06_bom : C06_bom_stmt.                          Proof. exact Proofs.C06.C06_bom. Qed.
Theorem C06_route_fixed : C06_route_fixed_stmt.          Proof. exact Proofs.C06.C06_route_fixed. Qed.
Theorem C06_route_tracks : C06_route_tracks_stmt.        Proof. exact Proofs.C06.C06_route_tracks. Qed.
Theorem C06_header : C06_header_stmt.                    Proof. exact Proofs.C06.C06_header. Qed.
Theorem C06_route_ok : C06_route_ok_stmt.                Proof. exact Proofs.C06.C06_route_ok. Qed.
Theorem C06_perm : C06_perm_stmt.                        Proof. exact Proofs.C06.C06_perm. Qed.
Theorem C06_unknown : C06_unknown_stmt.                  Proof. exact Proofs.C06.C06_unknown. Qed.
Theorem C06_unknown_chart : C06_unknown_chart_stmt.      Proof. exact Proofs.C06.C06_unknown_chart. Qed.
Theorem C06_required : C06_required_stmt.                Proof. exact Proofs.C06.C06_required. Qed.

(** Capstone: a file rendered from well-formed sections (LF or CRLF) is parsed as [from_secs] of exactly
    those sections. *)
From CP Require Import Spec.Render Proofs.Render.
Theorem render_file : render_file_stmt.       Proof. exact Proofs.Render.render_file. Qed.

(** The path entry point at byte level: the UTF-8 codec is a bijection between valid byte strings and texts of
    Unicode scalar values; utf-8-sig drops exactly one leading mark; a file with or without the mark and with LF or
    CRLF line endings parses as the LF text; undecodable bytes are a ValueError. *)
From CP Require Import Spec.Utf8Spec Proofs.Utf8.
Theorem utf8_roundtrip : utf8_roundtrip_stmt.       Proof. exact Proofs.Utf8.utf8_roundtrip. Qed.
Theorem utf8_canonical : utf8_canonical_stmt.       Proof. exact Proofs.Utf8.utf8_canonical. Qed.
Theorem utf8_bytes : utf8_bytes_stmt.               Proof. exact Proofs.Utf8.utf8_bytes. Qed.
Theorem utf8_sig_bom : utf8_sig_bom_stmt.           Proof. exact Proofs.Utf8.utf8_sig_bom. Qed.
Theorem utf8_sig_nobom : utf8_sig_nobom_stmt.       Proof. exact Proofs.Utf8.utf8_sig_nobom. Qed.
Theorem C06_bom_bytes : C06_bom_bytes_stmt.         Proof. exact Proofs.Utf8.C06_bom_bytes. Qed.
Theorem utf8_error_kind : utf8_error_kind_stmt.     Proof. exact Proofs.Utf8.utf8_error_kind. Qed.
