(** Properties/C11.v — Lookup hints are invisible; timestamps are never silently misplaced.
    Statements in Spec/C11.v, proofs in Proofs/C11.v. *)
From CP Require Import Spec.C11 Proofs.C11.

Theorem C11_hint : C11_hint_stmt.                  Proof. exact Proofs.C11.C11_hint. Qed.
Theorem C11_ts : C11_ts_stmt.                      Proof. exact Proofs.C11.C11_ts. Qed.
Theorem C11_ts_reject : C11_ts_reject_stmt.        Proof. exact Proofs.C11.C11_ts_reject. Qed.
Theorem C11_any_ok : C11_any_ok_stmt.              Proof. exact Proofs.C11.C11_any_ok. Qed.
Theorem C11_index : C11_index_stmt.                Proof. exact Proofs.C11.C11_index. Qed.
Theorem C11_threaded : C11_threaded_stmt.          Proof. exact Proofs.C11.C11_threaded. Qed.
Theorem C11_threaded_err : C11_threaded_err_stmt.  Proof. exact Proofs.C11.C11_threaded_err. Qed.
Theorem C11_notes : C11_notes_stmt.                Proof. exact Proofs.C11.C11_notes. Qed.
Theorem C11_built_wf : C11_built_wf_stmt.          Proof. exact Proofs.C11.C11_built_wf. Qed.
Theorem C11_bpm_self : C11_bpm_self_stmt.          Proof. exact Proofs.C11.C11_bpm_self. Qed.

(** Chart level: every timed point of every successfully parsed chart (time-signature, text, section,
    lyric, note start, star-power and track events of every track) stores the un-hinted query of its
    tick, every note end is the un-hinted query at tick + longest sustain, every tempo event stores
    its own index. *)
From CP Require Import Spec.ChartTimed Proofs.ChartTimed.
Theorem C11_chart : C11_chart_stmt.  Proof. exact Proofs.ChartTimed.C11_chart. Qed.
Theorem C11_file : C11_file_stmt.    Proof. exact Proofs.ChartTimed.C11_file. Qed.
