(** Properties/C12.v — Time is a non-decreasing function of tick across the whole chart. *)
From CP Require Import Spec.FloatSpec Spec.C12 Proofs.FloatMono Proofs.FloatAcc Proofs.C12.

Theorem dur_mono : dur_mono_stmt.                  Proof. exact Proofs.FloatMono.dur_mono. Qed.
Theorem dur_nonneg : dur_nonneg_stmt.              Proof. exact Proofs.FloatMono.dur_nonneg. Qed.
Theorem dur_strict : dur_strict_stmt.              Proof. exact Proofs.FloatAcc.dur_strict. Qed.
Theorem C12_mono : C12_mono_stmt.                  Proof. exact Proofs.C12.C12_mono. Qed.
Theorem C12_strict : C12_strict_stmt.              Proof. exact Proofs.C12.C12_strict. Qed.
Theorem C12_equal_ticks : C12_equal_ticks_stmt.    Proof. exact Proofs.C12.C12_equal_ticks. Qed.
Theorem C12_events : C12_events_stmt.              Proof. exact Proofs.C12.C12_events. Qed.
Theorem C12_note : C12_note_stmt.                  Proof. exact Proofs.C12.C12_note. Qed.

(** Chart level: events of any tracks of a parsed chart. *)
From CP Require Import Spec.ChartTimed Proofs.ChartTimed.
Theorem C12_chart : C12_chart_stmt.  Proof. exact Proofs.ChartTimed.C12_chart. Qed.
