(** Properties/C05.v — Star-power membership of notes is exact and half-open.
    Statements are in Spec/C05.v, proofs in Proofs/C05.v. *)
From CP Require Import Spec.C05 Proofs.C05.

Theorem C05_cursor : C05_cursor_stmt.            Proof. exact Proofs.C05.C05_cursor. Qed.
Theorem C05_track : C05_track_stmt.              Proof. exact Proofs.C05.C05_track. Qed.
Theorem C05_from_lines : C05_from_lines_stmt.    Proof. exact Proofs.C05.C05_from_lines. Qed.
Theorem C05_zero_length : C05_zero_length_stmt.  Proof. exact Proofs.C05.C05_zero_length. Qed.
Theorem C05_end_excluded : C05_end_excluded_stmt. Proof. exact Proofs.C05.C05_end_excluded. Qed.
Theorem C05_none_iff : C05_none_iff_stmt.        Proof. exact Proofs.C05.C05_none_iff. Qed.
Theorem C05_some_first : C05_some_first_stmt.    Proof. exact Proofs.C05.C05_some_first. Qed.

(** Chart level: every track of every successfully parsed chart (through [from_file]). *)
From CP Require Import Spec.ChartNotes Proofs.ChartNotes.
Theorem C05_chart : C05_chart_stmt.  Proof. exact Proofs.ChartNotes.C05_chart. Qed.
