(** Properties/C02.v — One note event per tick; lanes are exactly the lanes written. *)
From CP Require Import Spec.C02 Proofs.C02.

Theorem C02_concat : C02_concat_stmt.          Proof. exact Proofs.C02.C02_concat. Qed.
Theorem C02_uniform : C02_uniform_stmt.        Proof. exact Proofs.C02.C02_uniform. Qed.
Theorem C02_maximal : C02_maximal_stmt.        Proof. exact Proofs.C02.C02_maximal. Qed.
Theorem C02_sorted : C02_sorted_stmt.          Proof. exact Proofs.C02.C02_sorted. Qed.
Theorem C02_lanes : C02_lanes_stmt.            Proof. exact Proofs.C02.C02_lanes. Qed.
Theorem C02_open : C02_open_stmt.              Proof. exact Proofs.C02.C02_open. Qed.
Theorem C02_events : C02_events_stmt.          Proof. exact Proofs.C02.C02_events. Qed.
Theorem C02_interleave : C02_interleave_stmt.  Proof. exact Proofs.C02.C02_interleave. Qed.

(** Chart level: every track of every successfully parsed chart (through [from_file]). *)
From CP Require Import Spec.ChartNotes Proofs.ChartNotes.
Theorem C02_chart : C02_chart_stmt.  Proof. exact Proofs.ChartNotes.C02_chart. Qed.

(** Capstone: for a rendered section the note builder receives exactly the abstract note lines, in file
    order, whatever S / E lines are interleaved, and nothing is reported unparsable. *)
From CP Require Import Spec.Render Proofs.Render.
Theorem render_note_data : render_note_data_stmt.  Proof. exact Proofs.Render.render_note_data. Qed.
