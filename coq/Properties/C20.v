(** Properties/C20.v — Every module is importable first; import order does not matter.
    The import protocol is modelled in Model/Imports.v; the import programs are regenerated from the
    source (ast) on every run (Gen/Imports.v) and checked in Tie/C20.v. *)
From Coq Require Import List.
From CP Require Import Base.Prelude Model.Imports Proofs.C20.

Theorem C20 : C20_stmt.                                Proof. exact Proofs.C20.C20. Qed.
Theorem C20_loaded_set : forall P, cfg_ok_C20 P = true ->
  forall seq, (forall m, In m seq -> In m (mods P)) ->
  exists st, run_imports P seq = Ok st
    /\ forall m, In m (mods P) -> is_loaded st m = existsb (fun x => dep P x m) seq.
Proof. exact Proofs.C20.C20_loaded_set. Qed.
Theorem C20_first : forall P, cfg_ok_C20 P = true ->
  forall m, In m (mods P) ->
  exists st, run_imports P (m :: nil) = Ok st /\ is_loaded st m = true /\ namespace_of st m = canonical P m.
Proof. exact Proofs.C20.C20_first. Qed.
Theorem C20_same_names : forall P, cfg_ok_C20 P = true ->
  forall seq1 seq2, (forall m, In m seq1 -> In m (mods P)) -> (forall m, In m seq1 <-> In m seq2) ->
  exists st, run_imports P seq1 = Ok st /\ run_imports P seq2 = Ok st.
Proof. exact Proofs.C20.C20_same_names. Qed.
Theorem C20_permutation : forall P, cfg_ok_C20 P = true ->
  forall seq1 seq2, (forall m, In m seq1 -> In m (mods P)) -> Permutation.Permutation seq1 seq2 ->
  exists st, run_imports P seq1 = Ok st /\ run_imports P seq2 = Ok st.
Proof. exact Proofs.C20.C20_permutation. Qed.
Theorem C20_same_prediction : forall P, cfg_ok_C20 P = true ->
  forall seq1 seq2, (forall m, In m seq1 -> In m (mods P)) -> (forall m, In m seq1 <-> In m seq2) ->
  predict P seq1 = predict P seq2 /\ is_ok (predict P seq1) = true.
Proof. exact Proofs.C20.C20_same_prediction. Qed.
