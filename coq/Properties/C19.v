(** Properties/C19.v — A parsed chart is an immutable value under all read-only use. *)
From CP Require Import Spec.C19 Proofs.C19.

Theorem C19_immutable : C19_immutable_stmt.                      Proof. exact Proofs.C19.C19_immutable. Qed.
Theorem C19_history_free : C19_history_free_stmt.                Proof. exact Proofs.C19.C19_history_free. Qed.
Theorem C19_twin : C19_twin_stmt.                                Proof. exact Proofs.C19.C19_twin. Qed.
Theorem C19_frozen : C19_frozen_stmt.                            Proof. exact Proofs.C19.C19_frozen. Qed.
Theorem C19_refuted_autoinsert : C19_refuted_autoinsert_stmt.    Proof. exact Proofs.C19.C19_refuted_autoinsert. Qed.
