(** Properties/C16.v — notes_per_second is count-in-closed-interval over interval length. *)
From CP Require Import Spec.C16 Proofs.C16.

Theorem C16_main : C16_main_stmt.                    Proof. exact Proofs.C16.C16_main. Qed.
Theorem C16_absent : C16_absent_stmt.                Proof. exact Proofs.C16.C16_absent. Qed.
Theorem C16_noteless : C16_noteless_stmt.            Proof. exact Proofs.C16.C16_noteless. Qed.
Theorem C16_tick_vs_time : C16_tick_vs_time_stmt.    Proof. exact Proofs.C16.C16_tick_vs_time. Qed.
Theorem C16_rate_zero : C16_rate_zero_stmt.          Proof. exact Proofs.C16.C16_rate_zero. Qed.
