(** Properties/C18.v — Only documented errors escape; parsed charts always render. *)
From CP Require Import Spec.C18 Proofs.C18.

Theorem C18_struct : C18_struct_stmt.    Proof. exact Proofs.C18.C18_struct. Qed.
Theorem C18_errors : C18_errors_stmt.    Proof. exact Proofs.C18.C18_errors. Qed.
Theorem C18_render : C18_render_stmt.    Proof. exact Proofs.C18.C18_render. Qed.
