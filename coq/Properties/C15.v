(** Properties/C15.v — Untrustworthy tempo data is rejected loudly, never turned into times. *)
From CP Require Import Spec.C15 Proofs.C15.

Theorem C15_never_ok : C15_never_ok_stmt.      Proof. exact Proofs.C15.C15_never_ok. Qed.
Theorem C15_reject : C15_reject_stmt.          Proof. exact Proofs.C15.C15_reject. Qed.
Theorem C15_reject_R : C15_reject_R_stmt.      Proof. exact Proofs.C15.C15_reject_R. Qed.
Theorem C15_ts : C15_ts_stmt.                  Proof. exact Proofs.C15.C15_ts. Qed.
Theorem C15_query : C15_query_stmt.            Proof. exact Proofs.C15.C15_query. Qed.
Theorem C15_zero_tempo : C15_zero_tempo_stmt.  Proof. exact Proofs.C15.C15_zero_tempo. Qed.
Theorem C15_negative : C15_negative_stmt.      Proof. exact Proofs.C15.C15_negative. Qed.
