(** Properties/C07.v — Instrument-section lines are recognised and decoded exactly. *)
From CP Require Import Base.Cfg Spec.C07 Proofs.C07.

Theorem C07_note_accept : forall c, C07_note_accept_stmt c.  Proof. exact Proofs.C07.C07_note_accept. Qed.
Theorem C07_sp_accept : forall c, C07_sp_accept_stmt c.      Proof. exact Proofs.C07.C07_sp_accept. Qed.
Theorem C07_tev_accept : forall c, C07_tev_accept_stmt c.    Proof. exact Proofs.C07.C07_tev_accept. Qed.
Theorem C07_note_only : forall c, C07_note_only_stmt c.      Proof. exact Proofs.C07.C07_note_only. Qed.
Theorem C07_sp_only : forall c, C07_sp_only_stmt c.          Proof. exact Proofs.C07.C07_sp_only. Qed.
Theorem C07_tev_only : forall c, C07_tev_only_stmt c.        Proof. exact Proofs.C07.C07_tev_only. Qed.
Theorem C07_reject : forall c, C07_reject_stmt c.            Proof. exact Proofs.C07.C07_reject. Qed.
Theorem C07_disjoint : forall c, C07_disjoint_stmt c.        Proof. exact Proofs.C07.C07_disjoint. Qed.
Theorem C07_decimal : forall c, C07_decimal_stmt c.          Proof. exact Proofs.C07.C07_decimal. Qed.

(** Capstone: a whole instrument section rendered from abstract N / S / E lines (any white-space pad) is
    dispatched line by line to exactly the written data; see Spec/Render.v. *)
From CP Require Import Spec.Render Proofs.Render.
Theorem numeral_value : numeral_value_stmt.   Proof. exact Proofs.Render.numeral_value. Qed.
Theorem render_instr : render_instr_stmt.     Proof. exact Proofs.Render.render_instr. Qed.
