(** Properties/C03.v — Sustains, end tick, end time and last-note-end are faithful to the lines. *)
From CP Require Import Spec.C03 Proofs.C03.

Theorem C03_open : C03_open_stmt.                      Proof. exact Proofs.C03.C03_open. Qed.
Theorem C03_flags_only : C03_flags_only_stmt.          Proof. exact Proofs.C03.C03_flags_only. Qed.
Theorem C03_uniform : C03_uniform_stmt.                Proof. exact Proofs.C03.C03_uniform. Qed.
Theorem C03_tuple : C03_tuple_stmt.                    Proof. exact Proofs.C03.C03_tuple. Qed.
Theorem C03_flags_ignored : C03_flags_ignored_stmt.    Proof. exact Proofs.C03.C03_flags_ignored. Qed.
Theorem C03_longest : C03_longest_stmt.                Proof. exact Proofs.C03.C03_longest. Qed.
Theorem C03_longest_total : C03_longest_total_stmt.    Proof. exact Proofs.C03.C03_longest_total. Qed.
Theorem C03_event : C03_event_stmt.                    Proof. exact Proofs.C03.C03_event. Qed.
Theorem C03_last : C03_last_stmt.                      Proof. exact Proofs.C03.C03_last. Qed.
Theorem C03_refuted_pinned : C03_refuted_pinned_stmt.  Proof. exact Proofs.C03.C03_refuted_pinned. Qed.

(** Chart level: every track of every successfully parsed chart (through [from_file]). *)
From CP Require Import Spec.ChartNotes Proofs.ChartNotes.
Theorem C03_chart : C03_chart_stmt.  Proof. exact Proofs.ChartNotes.C03_chart. Qed.
