(** Properties/C10.v — Metadata fields decode independently, verbatim, with documented defaults. *)
From CP Require Import Base.Cfg Spec.C10 Proofs.C10.

Theorem C10_only : forall c, C10_only_stmt c.                            Proof. exact Proofs.C10.C10_only. Qed.
Theorem C10_str_verbatim : forall c, C10_str_verbatim_stmt c.            Proof. exact Proofs.C10.C10_str_verbatim. Qed.
Theorem C10_int : forall c, C10_int_stmt c.                              Proof. exact Proofs.C10.C10_int. Qed.
Theorem C10_player2 : forall c, C10_player2_stmt c.                      Proof. exact Proofs.C10.C10_player2. Qed.
Theorem C10_player2_capture : forall c, C10_player2_capture_stmt c.      Proof. exact Proofs.C10.C10_player2_capture. Qed.
Theorem C10_disjoint : forall c, C10_disjoint_stmt c.                    Proof. exact Proofs.C10.C10_disjoint. Qed.
Theorem C10_field : forall c, C10_field_stmt c.                          Proof. exact Proofs.C10.C10_field. Qed.
Theorem C10_foreign_line : forall c, C10_foreign_line_stmt c.            Proof. exact Proofs.C10.C10_foreign_line. Qed.
Theorem C10_perm : forall c, C10_perm_stmt c.                            Proof. exact Proofs.C10.C10_perm. Qed.
Theorem C10_defaults : forall c, C10_defaults_stmt c.                    Proof. exact Proofs.C10.C10_defaults. Qed.
Theorem C10_required : forall c, C10_required_stmt c.                    Proof. exact Proofs.C10.C10_required. Qed.
Theorem C10_shape : forall c, C10_shape_stmt c.                          Proof. exact Proofs.C10.C10_shape. Qed.
