(** Properties/C08.v — Tempo, time-signature and anchor lines decode to exact values. *)
From Coq Require Import ZArith.
From CP Require Import Base.Cfg Spec.FloatSpec Spec.C08 Proofs.C08 Proofs.FloatC08.

Theorem C08_bpm_accept : forall c, C08_bpm_accept_stmt c.        Proof. exact Proofs.C08.C08_bpm_accept. Qed.
Theorem C08_ts_accept : forall c, C08_ts_accept_stmt c.          Proof. exact Proofs.C08.C08_ts_accept. Qed.
Theorem C08_anchor_accept : forall c, C08_anchor_accept_stmt c.  Proof. exact Proofs.C08.C08_anchor_accept. Qed.
Theorem C08_bpm_only : forall c, C08_bpm_only_stmt c.            Proof. exact Proofs.C08.C08_bpm_only. Qed.
Theorem C08_ts_only : forall c, C08_ts_only_stmt c.              Proof. exact Proofs.C08.C08_ts_only. Qed.
Theorem C08_anchor_only : forall c, C08_anchor_only_stmt c.      Proof. exact Proofs.C08.C08_anchor_only. Qed.
Theorem C08_disjoint : forall c, C08_disjoint_stmt c.            Proof. exact Proofs.C08.C08_disjoint. Qed.
Theorem C08_ts_value : forall c, C08_ts_value_stmt c.            Proof. exact Proofs.C08.C08_ts_value. Qed.
Theorem C08_anchor_value : C08_anchor_value_stmt.                Proof. exact Proofs.C08.C08_anchor_value. Qed.
Theorem C08_bpm_float : C08_bpm_float_stmt.                      Proof. exact Proofs.FloatC08.C08_bpm_float. Qed.
Theorem C08_bpm_value : forall c raw n tick prev R e,
  Base.Str.py_int (tbl c) raw = Base.Prelude.Ok n -> (1 <= n < 2 ^ 52)%Z ->
  Model.Sync.bpm_from_data (tbl c) tick raw prev R = Base.Prelude.Ok e ->
  Model.Sync.b_bpm e = bpm_of_n n /\ Model.Sync.b_tick e = tick.
Proof. intro c. exact (Proofs.C08.C08_bpm_value c C08_bpm_float). Qed.
Theorem C08_bpm_first : forall c raw n tick R,
  Base.Str.py_int (tbl c) raw = Base.Prelude.Ok n -> (1 <= n < 2 ^ 52)%Z ->
  Model.Sync.bpm_from_data (tbl c) tick raw None R
  = Base.Prelude.Ok {| Model.Sync.b_tick := tick; Model.Sync.b_ts := 0; Model.Sync.b_bpm := bpm_of_n n; Model.Sync.b_idx := 0 |}.
Proof. intro c. exact (Proofs.C08.C08_bpm_first c C08_bpm_float). Qed.
Theorem C08_refuted_pinned : C08_refuted_pinned_stmt.            Proof. exact Proofs.FloatC08.C08_refuted_pinned. Qed.

(** Capstone: a rendered [SyncTrack] body is dispatched to exactly the written data. *)
From CP Require Import Spec.Render Proofs.Render.
Theorem render_sync : render_sync_stmt.       Proof. exact Proofs.Render.render_sync. Qed.
