(** Tie/C20.v — C20 instantiated on the import programs regenerated from the current source
    (Gen/Imports.v, written by tools/extract_imports.py), and non-vacuity: the model rejects the
    old cyclic layout. *)
From CP Require Import Base.Prelude Model.Imports Proofs.C20 Gen.Imports.
From Coq Require String Permutation.
Import String.StringSyntax.
Open Scope string_scope.

(** The decidable check succeeds on the current source. *)
Lemma ok : cfg_ok_C20 import_progs = true.
Proof. vm_compute. reflexivity. Qed.

(** The package and its twelve modules. *)
Lemma current_modules :
  mods import_progs =
  ["chartparse"; "chartparse.chart"; "chartparse.event"; "chartparse.exceptions";
   "chartparse.globalevents"; "chartparse.hints"; "chartparse.instrument"; "chartparse.metadata";
   "chartparse.sync"; "chartparse.tick"; "chartparse.time"; "chartparse.track"; "chartparse.util"].
Proof. vm_compute. reflexivity. Qed.

(** Every sequence of imports of chartparse modules (any length, repetitions allowed) succeeds in a
    fresh interpreter; every requested module ends up loaded; every loaded module has exactly the
    namespace it has when it is the very first import. *)
Theorem C20_on_current_source :
  forall seq, (forall m, In m seq -> In m (mods import_progs)) ->
  exists st, run_imports import_progs seq = Ok st
    /\ (forall m, is_loaded st m = true -> namespace_of st m = canonical import_progs m)
    /\ (forall m, In m seq -> is_loaded st m = true).
Proof. exact (C20 import_progs ok). Qed.

Corollary C20_first_on_current_source :
  forall m, In m (mods import_progs) ->
  exists st, run_imports import_progs [m] = Ok st /\ is_loaded st m = true
    /\ namespace_of st m = canonical import_progs m.
Proof. exact (C20_first import_progs ok). Qed.

Corollary C20_same_names_on_current_source :
  forall seq1 seq2, (forall m, In m seq1 -> In m (mods import_progs)) ->
  (forall m, In m seq1 <-> In m seq2) ->
  exists st, run_imports import_progs seq1 = Ok st /\ run_imports import_progs seq2 = Ok st.
Proof. exact (C20_same_names import_progs ok). Qed.

Corollary C20_permutation_on_current_source :
  forall seq1 seq2, (forall m, In m seq1 -> In m (mods import_progs)) ->
  Permutation.Permutation seq1 seq2 ->
  exists st, run_imports import_progs seq1 = Ok st /\ run_imports import_progs seq2 = Ok st.
Proof. exact (C20_permutation import_progs ok). Qed.

(** Concretely: the two modules that could not be imported first on the old tree. *)
Example instrument_first_ok :
  is_ok (run_imports import_progs ["chartparse.instrument"]) = true
  /\ is_ok (run_imports import_progs ["chartparse.sync"]) = true.
Proof. vm_compute. split; reflexivity. Qed.

(** The statement is not vacuous: imports do load modules and bind names, and different orders
    really go through different intermediate states before reaching the same final one. *)
Example C20_nonvacuous :
  match run_imports import_progs ["chartparse.sync"; "chartparse.chart"],
        run_imports import_progs ["chartparse.chart"; "chartparse.sync"],
        run_imports import_progs ["chartparse.sync"] with
  | Ok a, Ok b, Ok c =>
      state_eqb a b = true /\ state_eqb a c = false
      /\ is_loaded c "chartparse.track" = true /\ is_loaded c "chartparse.chart" = false
      /\ ns_get (namespace_of a "chartparse.chart") "Tick" = Some (OObj "chartparse.tick" "Tick")
      /\ ns_get (namespace_of a "chartparse.sync") "Tick" = Some (OObj "chartparse.tick" "Tick")
  | _, _, _ => False
  end.
Proof. vm_compute. repeat split; reflexivity. Qed.

(** *** The old layout is rejected.
    [track] needs a name of [instrument] at module level while [instrument] imports [track]
    before defining it (the shape of the pinned tree: track.py line 19-23, instrument.py line 23). *)
Definition old_layout : progs := [
  ("pkg", []);
  ("pkg.event", [SBind BDef ["Event"]]);
  ("pkg.instrument", [SImport "pkg.track";
                      SFrom "pkg.event" [("Event", "Event")];
                      SUse "Event" [];
                      SBind BDef ["StarPowerEvent"]]);
  ("pkg.track", [SFrom "pkg.event" [("Event", "Event")];
                 SFrom "pkg.instrument" [("StarPowerEvent", "StarPowerEvent")];
                 SBind BDef ["build_events_from_data"]])
].

Example old_layout_rejected :
  run_imports old_layout ["pkg.instrument"] = Err EImport      (* circular ImportError *)
  /\ is_ok (run_imports old_layout ["pkg.track"]) = true       (* the cycle-safe order works *)
  /\ is_ok (run_imports old_layout ["pkg.track"; "pkg.instrument"]) = true
  /\ cfg_ok_C20 old_layout = false.
Proof. vm_compute. repeat split; reflexivity. Qed.

(** After the failed import nothing half-initialised stays in sys.modules, but the modules that
    completed during the attempt do (CPython's unwinding). *)
Example old_layout_unwinds :
  match run_trace old_layout ["pkg.instrument"] with
  | (st, Some EImport) =>
      in_sys st "pkg.instrument" = false /\ in_sys st "pkg.track" = false
      /\ is_loaded st "pkg.event" = true /\ is_loaded st "pkg" = true
  | _ => False
  end.
Proof. vm_compute. repeat split; reflexivity. Qed.

(** The other face of the same defect: a late-bound [pkg.track.X] evaluated at import time while
    [pkg.track] is still initialising is an AttributeError (the attribute [track] of the package
    object is set only when the submodule import completes); inside a function body — the fixed
    layout — it is harmless. *)
Definition late_bound (at_import_time : bool) : progs := [
  ("pkg", []);
  ("pkg.instrument", [SImport "pkg.track"]
                     ++ (if at_import_time then [SUse "pkg" ["track"; "Base"]] else [])
                     ++ [SBind BDef ["InstrumentTrack"]]);
  ("pkg.track", [SBind BDef ["Base"]; SImport "pkg.instrument"; SBind BDef ["build"]])
].

Example late_binding :
  run_imports (late_bound true) ["pkg.track"] = Err EAttribute
  /\ is_ok (run_imports (late_bound true) ["pkg.instrument"]) = true
  /\ cfg_ok_C20 (late_bound true) = false
  /\ cfg_ok_C20 (late_bound false) = true.
Proof. vm_compute. repeat split; reflexivity. Qed.
