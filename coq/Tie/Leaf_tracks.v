(** Tie/Leaf_tracks.v — the three track classes' [_parse_data_from_chart_lines] / [from_chart_lines] (and SyncTrack.__post_init__) as translated
    from the current source are the model's [itrack_from_lines], [sync_from_lines], [globals_from_lines], given that the
    configuration's kind orders are the tuples the source passes (a cfg_ok item, proved per run by computation). *)
From Coq Require Import ZArith List Lia.
From CP Require Import Base.Prelude Base.Str Base.Cfg Base.Loops Base.While Base.Float64 Base.Timedelta
  Model.Lines Model.Sync Model.Instrument Model.Chart Gen.Leaf_dispatch Tie.Leaf_dispatch Gen.Leaf_tracks.
Import ListNotations.
Open Scope Z_scope.

Lemma leaf_sync_post_init_ok : forall tss B ans,
  mk_sync_track tss B ans = let* _ := leaf_sync_post_init tss in Ok {| st_ts := tss; st_bpm := B; st_anchor := ans |}.
Proof.
  intros tss B ans. unfold mk_sync_track, leaf_sync_post_init.
  destruct tss as [|t0 tss']; [reflexivity|].
  assert (E : (Zlength_ (t0 :: tss') =? 0) = false).
  { unfold Zlength_. cbn [length]. apply Z.eqb_neq. rewrite Nat2Z.inj_succ. pose proof (Nat2Z.is_nonneg (length tss')). lia. }
  rewrite E.
  change (seq_get (t0 :: tss') 0) with (Ok t0). cbn [bind]. unfold ts_tick_.
  destruct (t_tick (ts_at t0) =? 0); reflexivity.
Qed.

Theorem leaf_instr_from_chart_lines_ok : forall c i d lines B,
  order_instr c = [KNote; KSP; KTev] ->
  leaf_instr_from_chart_lines c i d lines B = itrack_from_lines c i d lines B.
Proof.
  intros c i d lines B Ho. unfold leaf_instr_from_chart_lines, leaf_instr_parse_data, itrack_from_lines.
  rewrite leaf_parse_data_from_chart_lines_ok, Ho.
  destruct (dispatch c [KNote; KSP; KTev] lines) as [outs|e]; cbn [bind]; [|reflexivity].
  rewrite !pdm_of_get. unfold build_sp_events, build_tev_events, build_note_events_py, mk_itrack.
  destruct (build_timed B (map pd_tick (data_of KSP outs)) None) as [sptm|e]; cbn [bind]; [|reflexivity].
  destruct (build_timed B (map pd_tick (data_of KTev outs)) None) as [tvtm|e]; cbn [bind]; [|reflexivity].
  destruct (build_notes c B _ _ None 0 0) as [ns|e]; cbn [bind]; reflexivity.
Qed.

Theorem leaf_sync_from_chart_lines_ok : forall c R lines,
  order_sync c = [KBpm; KTs; KAnchor] ->
  leaf_sync_from_chart_lines c R lines = sync_from_lines c R lines.
Proof.
  intros c R lines Ho. unfold leaf_sync_from_chart_lines, leaf_sync_parse_data, sync_from_lines.
  rewrite leaf_parse_data_from_chart_lines_ok, Ho.
  destruct (dispatch c [KBpm; KTs; KAnchor] lines) as [outs|e]; cbn [bind]; [|reflexivity].
  rewrite !pdm_of_get. unfold build_bpm_events_py, build_ts_events, build_anchor_events, mk_sync_track.
  destruct (build_bpm_events (tbl c) (map bpm_payload (data_of KBpm outs)) R) as [B|e]; cbn [bind]; [|reflexivity].
  destruct (build_timed B (map pd_tick (data_of KTs outs)) None) as [tms|e]; cbn [bind]; [|reflexivity].
  destruct (mapM anchor_from (data_of KAnchor outs)) as [ans|e]; cbn [bind]; [|reflexivity].
  destruct (map _ (combine tms (data_of KTs outs))) as [|t0 tss']; cbn [bind]; [reflexivity|].
  destruct (t_tick (ts_at t0) =? 0); reflexivity.
Qed.

Theorem leaf_globals_from_chart_lines_ok : forall c lines B,
  order_events c = [KLyric; KSection; KText] ->
  leaf_globals_from_chart_lines c lines B = globals_from_lines c lines B.
Proof.
  intros c lines B Ho. unfold leaf_globals_from_chart_lines, leaf_globals_parse_data, globals_from_lines.
  rewrite leaf_parse_data_from_chart_lines_ok, Ho.
  destruct (dispatch c [KLyric; KSection; KText] lines) as [outs|e]; cbn [bind]; [|reflexivity].
  rewrite !pdm_of_get. unfold build_globals_py, mk_globals.
  destruct (build_globals B (data_of KText outs)) as [tx|e]; cbn [bind]; [|reflexivity].
  destruct (build_globals B (data_of KSection outs)) as [se|e]; cbn [bind]; [|reflexivity].
  destruct (build_globals B (data_of KLyric outs)) as [ly|e]; cbn [bind]; reflexivity.
Qed.
Print Assumptions leaf_sync_from_chart_lines_ok.

(** On the configuration regenerated from the current source the kind orders are the tuples the translated functions pass. *)
From CP Require Import Gen.Src.
Lemma kind_orders_ok :
  order_instr cfg = [KNote; KSP; KTev] /\ order_sync cfg = [KBpm; KTs; KAnchor] /\ order_events cfg = [KLyric; KSection; KText].
Proof. vm_compute. repeat split; reflexivity. Qed.

Corollary instr_from_chart_lines_on_current_source : forall i d lines B,
  leaf_instr_from_chart_lines cfg i d lines B = itrack_from_lines cfg i d lines B.
Proof. intros. apply leaf_instr_from_chart_lines_ok. apply kind_orders_ok. Qed.
Corollary sync_from_chart_lines_on_current_source : forall R lines,
  leaf_sync_from_chart_lines cfg R lines = sync_from_lines cfg R lines.
Proof. intros. apply leaf_sync_from_chart_lines_ok. apply kind_orders_ok. Qed.
Corollary globals_from_chart_lines_on_current_source : forall lines B,
  leaf_globals_from_chart_lines cfg lines B = globals_from_lines cfg lines B.
Proof. intros. apply leaf_globals_from_chart_lines_ok. apply kind_orders_ok. Qed.
