(** Tie/Leaf_fromfile.v — Chart.from_file as translated from the current source (required sections, the three fixed parsers in order, routing of
    every section through the header table with the track selection, the warning for unknown sections, the order of all log
    records) is the model's [from_file]. *)
From Coq Require Import ZArith List Lia.
From CP Require Import Base.Prelude Base.Str Base.Cfg Base.Loops Base.While Base.Float64 Base.Timedelta
  Model.Lines Model.Sync Model.Instrument Model.Chart Gen.Leaf_fromfile.
Import ListNotations.
Open Scope Z_scope.

Definition rbody (c : cfg) (want_tracks : option (list (str * str))) (B : bpm_events)
  : (list (str * list (str * itrack)) * list log) -> (str * list str) -> result (list (str * list (str * itrack)) * list log) :=
  fun '(instrument_tracks, log_) '(header_tag, data_section_lines) =>
  if (dict_mem header_tag (rev (header_pairs c))) then let* instrument_difficulty_pair := (dict_get (rev (header_pairs c)) header_tag) in
  if (match want_tracks with None => false | Some want_tracks => (negb (existsb (pair_eqb instrument_difficulty_pair) want_tracks)) end) then Ok (instrument_tracks, log_) else
  let '(instrument, difficulty) := instrument_difficulty_pair in
  let* (track, lg3_) := (itrack_from_lines c instrument difficulty data_section_lines B) in
  let log_ := (log_ ++ map LUnparsable lg3_) in
  let instrument_tracks := (tracks_set instrument difficulty track instrument_tracks) in
  Ok (instrument_tracks, log_) else
  if (negb (mem_str header_tag (required_tags c))) then let log_ := (log_ ++ [LUnhandled header_tag]) in
  Ok (instrument_tracks, log_) else
  Ok (instrument_tracks, log_).

Lemma route_fold c want B : forall secs acc logs,
  foldM (rbody c want B) secs (acc, logs) = route c B want secs acc logs.
Proof.
  induction secs as [|[tag body] secs IH]; intros acc logs; cbn [foldM route]; [reflexivity|].
  unfold rbody at 1. unfold dict_mem, dict_get, header_lookup.
  destruct (assoc tag (rev (header_pairs c))) as [[i d]|]; cbn [bind].
  - unfold wanted. destruct want as [w|].
    + destruct (existsb (pair_eqb (i, d)) w); cbn [negb bind].
      * destruct (itrack_from_lines c i d body B) as [[tr ws]|e]; cbn [bind]; [apply IH | reflexivity].
      * apply IH.
    + destruct (itrack_from_lines c i d body B) as [[tr ws]|e]; cbn [bind]; [apply IH | reflexivity].
  - destruct (mem_str tag (required_tags c)); cbn [negb bind]; apply IH.
Qed.

Theorem leaf_from_file_ok : forall c text want, leaf_from_file c text want = from_file c text want.
Proof.
  intros c text want. unfold leaf_from_file, from_file.
  destruct (partition c (splitlines (tbl c) text)) as [secs|e]; cbn [bind]; [|reflexivity].
  unfold dict_mem at 1.
  destruct (negb (forallb _ (required_tags c))); [reflexivity|].
  unfold dict_get, sec_lookup.
  destruct (assoc (tag_song c) secs) as [song|]; cbn [bind]; [|reflexivity].
  destruct (meta_parse c song) as [meta|e]; cbn [bind]; [|reflexivity].
  destruct (meta_resolution meta) as [R|e]; cbn [bind]; [|reflexivity].
  destruct (assoc (tag_sync c) secs) as [sl|]; cbn [bind]; [|reflexivity].
  destruct (sync_from_lines c R sl) as [[sync w1]|e]; cbn [bind]; [|reflexivity].
  destruct (assoc (tag_events c) secs) as [el|]; cbn [bind]; [|reflexivity].
  destruct (globals_from_lines c el (st_bpm sync)) as [[gev w2]|e]; cbn [bind]; [|reflexivity].
  change (foldM _ secs ([], ([] ++ map LUnparsable w1) ++ map LUnparsable w2))
    with (foldM (rbody c want (st_bpm sync)) secs ([], ([] ++ map LUnparsable w1) ++ map LUnparsable w2)).
  rewrite route_fold. cbn [app].
  destruct (route c (st_bpm sync) want secs [] (map LUnparsable w1 ++ map LUnparsable w2)) as [[tracks logs]|e]; reflexivity.
Qed.
Print Assumptions leaf_from_file_ok.

(** The capstone of C06, stated of Chart.from_file as translated from the current source: a file rendered from well-formed
    sections (LF or CRLF) is parsed as [from_secs] of exactly those sections. *)
From CP Require Import Spec.ChartSpec Spec.Render Properties.C06.
Corollary render_file_on_translated_source :
  forall c secs nl want, cfg_ok_chart c = true -> wf_secs secs -> nl = NL_LF \/ nl = NL_CRLF ->
    Forall (fun s => no_breaks (tbl c) (fst s) /\ Forall (no_breaks (tbl c)) (snd s)) secs ->
    leaf_from_file c (join nl (lines_of secs)) want = from_secs c secs want.
Proof. intros c secs nl want H1 H2 H3 H4. rewrite leaf_from_file_ok. exact (render_file c secs nl want H1 H2 H3 H4). Qed.
