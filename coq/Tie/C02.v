(** Tie/C02.v — obligations of C02 on the configuration regenerated from the current source. *)
From CP Require Import Base.Prelude Base.Str Base.Regex Base.Cfg Base.Float64 Base.Timedelta
  Model.Lines Model.Sync Model.Instrument Model.Obs Spec.RefRegex Spec.C02 Properties.C02 Gen.Src.
Open Scope Z_scope.

(** Non-vacuity: adjacent ticks, a five-lane chord with both flags, an open note, S lines between. *)
Definition ex_l : list ndata :=
  map (fun p => {| nd_tick := fst (fst p); nd_idx := snd (fst p); nd_sus := snd p |})
      [(0,0,0); (0,1,0); (0,2,0); (0,3,0); (0,4,0); (0,5,0); (0,6,0); (1,7,10); (2,4,5); (2,0,5); (100,2,0)].
Example C02_nonvacuous :
  map (fun g => (group_tick g, lanes_of g)) (group_by_tick ex_l) =
  [(0, [true; true; true; true; true]); (1, no_lanes); (2, [true; false; false; false; true]);
   (100, [false; false; true; false; false])].
Proof. vm_compute. reflexivity. Qed.

(** The three instrument recognisers of the current source are the reference ones (used by the
    interleaving lemma through C07/C14). *)
Lemma instr_ok : cfg_ok_instr cfg = true.
Proof. vm_compute. reflexivity. Qed.
