(** Tie/Leaf_sustain.v — the generated sustain / lane leaves (Gen/Leaf_sustain.v) equal the model (Model/Instrument.v). *)
From Coq Require Import ZifyBool Lia.
From CP Require Import Base.Prelude Base.Cfg Base.Loops Base.While Base.Float64 Model.Sync Model.Instrument Gen.Leaf_tick Gen.Leaf_special Gen.Leaf_sustain.
Open Scope Z_scope.

(** *** helpers *)
Lemma somes_unfold : forall (l : list (option Z)),
  flat_map (fun o => match o with Some v => [v] | None => [] end) l = somes l.
Proof. reflexivity. Qed.

Lemma forallb_none_somes : forall (l : list (option Z)),
  forallb (fun s => match s with None => true | Some _ => false end) l = true <-> somes l = [].
Proof.
  induction l as [|[v|] t IH]; simpl.
  - split; reflexivity.
  - split; discriminate.
  - exact IH.
Qed.

Lemma set_nth__eq : forall {A} n (x : A) l, set_nth_ n x l = set_nth n x l.
Proof.
  intros A n x l; revert n; induction l as [|h t IH]; intros [|n]; try reflexivity.
  unfold set_nth_ in *. simpl. f_equal. apply IH.
Qed.

Lemma set_nth_length : forall {A} n (x : A) l, length (set_nth n x l) = length l.
Proof.
  intros A n x l; revert n; induction l as [|h t IH]; intros [|n]; simpl; auto.
Qed.

Lemma map_set_nth : forall {A B} (f : A -> B) n x l, map f (set_nth n x l) = set_nth n (f x) (map f l).
Proof.
  intros A B f n x l; revert n; induction l as [|h t IH]; intros [|n]; simpl; auto.
  f_equal; apply IH.
Qed.

Lemma list_set_in_range : forall {A} (l : list A) i x,
  0 <= i < Zlength_ l -> list_set l i x = Ok (set_nth (Z.to_nat i) x l).
Proof.
  intros A l i x H. unfold list_set.
  destruct (i <? 0) eqn:E1; [lia|].
  destruct (i <? Zlength_ l) eqn:E2; [|lia].
  now rewrite set_nth__eq.
Qed.

Lemma list_set_above : forall {A} (l : list A) i x,
  Zlength_ l <= i -> 0 <= i -> list_set l i x = Err EIndex.
Proof.
  intros A l i x H H0. unfold list_set.
  destruct (i <? 0) eqn:E1; [lia|].
  destruct (i <? Zlength_ l) eqn:E2; [lia|]. reflexivity.
Qed.

(** *** _refined_sustain_tuple *)
Lemma leaf_refined_sustain_tuple_ok : forall l, leaf_refined_sustain_tuple l = Ok (refined_sustain l).
Proof.
  intro l. unfold leaf_refined_sustain_tuple, refined_sustain. rewrite somes_unfold.
  destruct (forallb (fun s => match s with None => true | Some _ => false end) l) eqn:E.
  - apply forallb_none_somes in E. now rewrite E.
  - destruct (somes l) as [|s0 t] eqn:Es.
    + apply forallb_none_somes in Es. congruence.
    + simpl.
      destruct (forallb (fun d => match d with None => true | Some d0 => d0 =? s0 end) l); reflexivity.
Qed.

(** *** complex_sustain_from_parsed_datas *)
Lemma sustain_fold_ok : forall g acc, Zlength_ acc = 5 ->
  foldM (fun sl d => if leaf_is_5_note (nd_idx d) then list_set sl (nd_idx d) (Some (nd_sus d)) else Ok sl) g acc
  = Ok (fold_left (fun l d => if is_5_note (nd_idx d)
                        then set_nth (Z.to_nat (nd_idx d)) (Some (nd_sus d)) l else l) g acc).
Proof.
  induction g as [|d g IH]; intros acc Hl; simpl; [reflexivity|].
  change (leaf_is_5_note (nd_idx d)) with (is_5_note (nd_idx d)).
  destruct (is_5_note (nd_idx d)) eqn:E.
  - unfold is_5_note in E. rewrite list_set_in_range by lia. simpl.
    apply IH. unfold Zlength_ in *. now rewrite set_nth_length.
  - simpl. apply IH, Hl.
Qed.

Lemma leaf_complex_sustain_ok : forall g, leaf_complex_sustain g = complex_sustain g.
Proof.
  intro g. unfold leaf_complex_sustain, complex_sustain.
  change IDX_OPEN with 7.
  destruct (find (fun d => nd_idx d =? 7) g); [reflexivity|].
  rewrite sustain_fold_ok by reflexivity. simpl.
  rewrite leaf_refined_sustain_tuple_ok. reflexivity.
Qed.

(** *** NoteEvent._longest_sustain *)
Lemma leaf_longest_sustain_ok : forall s, leaf_longest_sustain s = longest_sustain s.
Proof.
  intros [n|l]; simpl; [reflexivity|]. rewrite somes_unfold.
  destruct (forallb (fun s => match s with None => true | Some _ => false end) l) eqn:E.
  - apply forallb_none_somes in E. now rewrite E.
  - destruct (somes l) as [|v vs] eqn:Es; [|reflexivity].
    apply forallb_none_somes in Es. congruence.
Qed.

(** *** Note.from_parsed_datas *)
Lemma note_fold_ok : forall g acc, Zlength_ acc = 5 -> Forall (fun d => 0 <= nd_idx d) g ->
  foldM (fun n d => catch_index (list_set n (nd_idx d) 1) n) g acc
  = Ok (fold_left (fun n d => if (0 <=? nd_idx d) && (nd_idx d <? 5)
                        then set_nth (Z.to_nat (nd_idx d)) 1 n else n) g acc).
Proof.
  induction g as [|d g IH]; intros acc Hl HF; simpl; [reflexivity|].
  inversion HF as [|? ? Hd HF']; subst.
  destruct ((0 <=? nd_idx d) && (nd_idx d <? 5)) eqn:E.
  - rewrite list_set_in_range by lia. simpl.
    apply IH; [|exact HF']. unfold Zlength_ in *. now rewrite set_nth_length.
  - rewrite list_set_above by lia. simpl. apply IH; assumption.
Qed.

Lemma lanes_fold_map : forall g acc,
  lanes_of_bits (fold_left (fun n d => if (0 <=? nd_idx d) && (nd_idx d <? 5)
                        then set_nth (Z.to_nat (nd_idx d)) 1 n else n) g acc)
  = fold_left (fun n d => if (0 <=? nd_idx d) && (nd_idx d <? 5)
                        then set_nth (Z.to_nat (nd_idx d)) true n else n) g (lanes_of_bits acc).
Proof.
  induction g as [|d g IH]; intros acc; simpl; [reflexivity|].
  rewrite IH. f_equal.
  destruct ((0 <=? nd_idx d) && (nd_idx d <? 5)); [|reflexivity].
  unfold lanes_of_bits. now rewrite map_set_nth.
Qed.

Lemma leaf_note_from_parsed_datas_ok :
  forall g, Forall (fun d => 0 <= nd_idx d) g -> leaf_note_from_parsed_datas g = Ok (lanes_of g).
Proof.
  intros g HF. unfold leaf_note_from_parsed_datas, lanes_of.
  rewrite note_fold_ok by (try reflexivity; assumption). simpl bind.
  rewrite lanes_fold_map. reflexivity.
Qed.

Print Assumptions leaf_refined_sustain_tuple_ok.
Print Assumptions leaf_complex_sustain_ok.
Print Assumptions leaf_longest_sustain_ok.
Print Assumptions leaf_note_from_parsed_datas_ok.
