(** Tie/Leaf_build.v — the generated two-loop [leaf_build_note_events] equals the model's
    [build_notes] over [group_by_tick] (errors included). *)
From Coq Require Import ZArith List Lia ZifyBool.
From CP Require Import Base.Prelude Base.Cfg Base.Loops Base.While Base.Float64 Base.Timedelta Model.Sync Model.Instrument Gen.Leaf_tick Gen.Leaf_special Gen.Leaf_note.
Import ListNotations.
Open Scope Z_scope.

(** * The per-group function *)
Lemma leaf_note_from_parsed_data_ok :
  forall c B sps g prev hint cursor,
    leaf_note_from_parsed_data c g prev sps B hint cursor = note_from_group c B sps g prev hint cursor.
Proof.
  intros c B sps g prev hint cursor. unfold leaf_note_from_parsed_data, note_from_group.
  destruct g as [|d0 g']; [reflexivity|].
  change (seq_get (d0 :: g') 0) with (Ok d0). cbn [bind].
  destruct (complex_sustain (d0 :: g')) as [sus|e]; cbn [bind]; [|reflexivity].
  destruct (timestamp_at_tick B (nd_tick d0) hint) as [[ts idx]|e]; cbn [bind]; [|reflexivity].
  change (fun d : ndata => nd_idx d =? 6) with (fun d : ndata => nd_idx d =? IDX_TAP).
  change (fun d : ndata => nd_idx d =? 5) with (fun d : ndata => nd_idx d =? IDX_FORCED).
  destruct prev as [p|]; cbn [option_map];
    (match goal with |- context [compute_hopo ?a1 ?a2 ?a3 ?a4 ?a5 ?a6 ?a7] => destruct (compute_hopo a1 a2 a3 a4 a5 a6 a7) as [h|e] end;
     cbn [bind]; [|reflexivity];
     unfold compute_sp_py;
     destruct (compute_sp sps (nd_tick d0) cursor) as [[spd cur]|e]; cbn [bind]; [|reflexivity];
     destruct (longest_sustain sus) as [lg|e]; cbn [bind]; [|reflexivity];
     change (leaf_note_end_tick (nd_tick d0) lg) with (tick_add (nd_tick d0) lg);
     destruct (timestamp_at_tick B (tick_add (nd_tick d0) lg) idx) as [[ets j]|e]; cbn [bind]; reflexivity).
Qed.

(** * [group_by_tick], left to right *)
Fixpoint span_tick (t : Z) (l : list ndata) : list ndata * list ndata :=
  match l with
  | [] => ([], [])
  | x :: xs => if nd_tick x =? t then (x :: fst (span_tick t xs), snd (span_tick t xs)) else ([], l)
  end.

Lemma span_tick_app : forall t l, fst (span_tick t l) ++ snd (span_tick t l) = l.
Proof.
  induction l as [|x xs IH]; cbn [span_tick]; [reflexivity|].
  destruct (nd_tick x =? t); cbn [fst snd app]; [rewrite IH|]; reflexivity.
Qed.

Lemma span_tick_len : forall t l,
  (length (fst (span_tick t l)) + length (snd (span_tick t l)) = length l)%nat.
Proof.
  intros t l. rewrite <- (span_tick_app t l) at 3. rewrite app_length. reflexivity.
Qed.

Lemma gbt_unfold : forall d rest,
  group_by_tick (d :: rest) =
  match group_by_tick rest with
  | (d' :: g) :: gs => if nd_tick d' =? nd_tick d then (d :: d' :: g) :: gs
                       else [d] :: (d' :: g) :: gs
  | gs => [d] :: gs
  end.
Proof. reflexivity. Qed.

Lemma group_by_tick_cons : forall rest d,
  group_by_tick (d :: rest) =
  (d :: fst (span_tick (nd_tick d) rest)) :: group_by_tick (snd (span_tick (nd_tick d) rest)).
Proof.
  induction rest as [|x xs IH]; intro d.
  - reflexivity.
  - rewrite gbt_unfold. rewrite (IH x). cbv iota. cbn [span_tick].
    destruct (nd_tick x =? nd_tick d) eqn:E; cbn [fst snd].
    + apply Z.eqb_eq in E. rewrite E. reflexivity.
    + rewrite (IH x). reflexivity.
Qed.

(** * List/index helpers *)
Lemma skipn_cons_inv : forall {A} n (l : list A) y ys,
  skipn n l = y :: ys -> nth_error l n = Some y /\ skipn (S n) l = ys.
Proof.
  induction n as [|n IH]; intros l y ys H.
  - destruct l; cbn in H; [discriminate|]. inversion H; subst. split; reflexivity.
  - destruct l as [|a l]; [discriminate|]. cbn [skipn] in H. apply IH in H. exact H.
Qed.

Lemma skipn_nil_len : forall {A} n (l : list A), skipn n l = [] -> (length l <= n)%nat.
Proof.
  induction n as [|n IH]; intros l H.
  - cbn in H. subst. cbn. lia.
  - destruct l as [|a l]; cbn [length]; [lia|]. cbn [skipn] in H. apply IH in H. lia.
Qed.

Lemma skipn_add : forall {A} m n (l : list A), skipn (n + m) l = skipn m (skipn n l).
Proof.
  induction n as [|n IH]; intro l; [reflexivity|].
  destruct l as [|a l]; cbn [Nat.add skipn]; [destruct m; reflexivity|apply IH].
Qed.

Lemma skipn_len_le : forall {A} n (l : list A) r, skipn n l = r -> (n + length r = length l \/ r = [])%nat.
Proof.
  intros A n l r H. subst r. rewrite skipn_length.
  destruct (le_lt_dec (length l) n) as [Hle|Hlt].
  - right. apply skipn_all2. exact Hle.
  - left. lia.
Qed.

Lemma seq_get_nth : forall {A} (l : list A) i x,
  0 <= i -> nth_error l (Z.to_nat i) = Some x -> seq_get l i = Ok x.
Proof.
  intros A l i x Hi H. unfold seq_get, nth_Z.
  destruct (i <? 0) eqn:E; [lia|]. rewrite H. reflexivity.
Qed.

Lemma last_opt_snoc : forall {A} (l : list A) x, last_opt (l ++ [x]) = Some x.
Proof. intros. unfold last_opt. rewrite rev_app_distr. reflexivity. Qed.

(** * The inner loop *)
Definition icond (datas : list ndata) : Z -> result bool :=
  fun i => let* b_ := Ok ((i + 1) <? Zlength_ datas) in
           if b_ then let* x1 := (seq_get datas (i + 1)) in let* x2 := (seq_get datas i) in Ok ((nd_tick x1) =? (nd_tick x2))
           else Ok false.
Definition ibody : Z -> result Z := fun i => let i := (i + 1) in Ok i.

Lemma inner_loop : forall datas rest i x fuel,
  0 <= i ->
  nth_error datas (Z.to_nat i) = Some x ->
  skipn (S (Z.to_nat i)) datas = rest ->
  (length (fst (span_tick (nd_tick x) rest)) < fuel)%nat ->
  while_fuel fuel (icond datas) ibody i = Ok (i + Zlength_ (fst (span_tick (nd_tick x) rest))).
Proof.
  intros datas. induction rest as [|y ys IH]; intros i x fuel Hi Hx Hs Hf.
  - destruct fuel as [|f]; [cbn in Hf; lia|].
    cbn [while_fuel]. unfold icond at 1. cbn [bind].
    apply skipn_nil_len in Hs.
    replace (i + 1 <? Zlength_ datas) with false by (unfold Zlength_; lia).
    cbn [bind span_tick fst length]. unfold Zlength_. cbn [length]. f_equal. lia.
  - destruct fuel as [|f]; [lia|].
    cbn [while_fuel]. unfold icond at 1. cbn [bind].
    apply skipn_cons_inv in Hs. destruct Hs as [Hy Hs].
    assert (Hlen : (S (Z.to_nat i) < length datas)%nat).
    { apply nth_error_Some. rewrite Hy. discriminate. }
    replace (i + 1 <? Zlength_ datas) with true by (unfold Zlength_; lia).
    cbn [bind].
    replace (S (Z.to_nat i)) with (Z.to_nat (i + 1)) in Hy, Hs by lia.
    rewrite (seq_get_nth datas (i + 1) y) by (try lia; exact Hy).
    rewrite (seq_get_nth datas i x) by (try lia; exact Hx).
    cbn [bind span_tick] in Hf |- *.
    destruct (nd_tick y =? nd_tick x) eqn:E.
    + unfold ibody at 1. cbn [bind]. cbn [fst length] in Hf |- *.
      apply Z.eqb_eq in E. rewrite <- E in Hf |- *.
      rewrite (IH (i + 1) y f); try lia; try assumption.
      f_equal. unfold Zlength_. cbn [length]. lia.
    + cbn [fst]. unfold Zlength_. cbn [length]. f_equal. lia.
Qed.

(** * The outer loop *)
Definition ostate := (Z * Z * Z * list note_event)%type.

Definition ocond (datas : list ndata) : ostate -> result bool :=
  fun '(i, proximal_bpm_event_index, star_power_event_index, events) => Ok (i <? Zlength_ datas).

Definition obody (c : cfg) (datas : list ndata) (sps : list special_event) (B : bpm_events) : ostate -> result ostate :=
  fun '(i, proximal_bpm_event_index, star_power_event_index, events) =>
  let previous_event := (last_opt events) in
  let left := i in
  let* i := while_fuel (S (length datas)) (icond datas) ibody i in
  let right := (i + 1) in
  let* (event, proximal_bpm_event_index, star_power_event_index) := (leaf_note_from_parsed_data c (slice_Z datas left right) previous_event sps B proximal_bpm_event_index star_power_event_index) in
  let events := (events ++ [event]) in
  let i := (i + 1) in
  Ok (i, proximal_bpm_event_index, star_power_event_index, events).

Lemma proj_events : forall (r : result ostate),
  (let* (i, proximal_bpm_event_index, star_power_event_index, events) := r in Ok events) =
  (let* st := r in Ok (snd st)).
Proof. intros [[[[i h] cu] ev]|e]; reflexivity. Qed.

Lemma leaf_build_note_events_unfold : forall c datas sps B,
  leaf_build_note_events c datas sps B =
  let* st := while_fuel (S (length datas)) (ocond datas) (obody c datas sps B) (0, 0, 0, []) in
  Ok (snd st).
Proof.
  intros.
  exact (proj_events (while_fuel (S (length datas)) (ocond datas) (obody c datas sps B) (0, 0, 0, []))).
Qed.

Lemma outer_loop : forall c datas sps B fuel todo i hint cursor events,
  0 <= i ->
  skipn (Z.to_nat i) datas = todo ->
  (Z.to_nat i + length todo = length datas)%nat ->
  (length todo < fuel)%nat ->
  (let* st := while_fuel fuel (ocond datas) (obody c datas sps B) (i, hint, cursor, events) in Ok (snd st)) =
  (let* es := build_notes c B sps (group_by_tick todo) (last_opt events) hint cursor in Ok (events ++ es)).
Proof.
  intros c datas sps B. induction fuel as [|f IH]; intros todo i hint cursor events Hi Hs Hl Hf; [lia|].
  cbn [while_fuel]. unfold ocond at 1. cbn [bind].
  destruct todo as [|d rest].
  - cbn [length] in Hl.
    replace (i <? Zlength_ datas) with false by (unfold Zlength_; lia).
    cbn [bind]. cbn [group_by_tick build_notes bind snd]. rewrite app_nil_r. reflexivity.
  - cbn [length] in Hl, Hf.
    replace (i <? Zlength_ datas) with true by (unfold Zlength_; lia).
    cbn [bind]. apply skipn_cons_inv in Hs. destruct Hs as [Hd Hs].
    unfold obody at 1. cbn [bind].
    set (pre := fst (span_tick (nd_tick d) rest)).
    set (post := snd (span_tick (nd_tick d) rest)).
    assert (Happ : pre ++ post = rest) by apply span_tick_app.
    assert (Hlen : (length pre + length post = length rest)%nat) by apply span_tick_len.
    rewrite (inner_loop datas rest i d (S (length datas)) Hi Hd Hs) by (fold pre; lia).
    fold pre. cbn [bind].
    assert (Hslice : slice_Z datas i (i + Zlength_ pre + 1) = d :: pre).
    { unfold slice_Z.
      assert (Hsk : skipn (Z.to_nat i) datas = d :: rest).
      { rewrite <- (firstn_skipn 1 (skipn (Z.to_nat i) datas)).
        rewrite <- skipn_add. replace (Z.to_nat i + 1)%nat with (S (Z.to_nat i)) by lia.
        rewrite Hs.
        destruct (skipn (Z.to_nat i) datas) as [|a l] eqn:E.
        - apply skipn_nil_len in E. lia.
        - pose proof (skipn_cons_inv _ _ _ _ E) as [E1 _]. rewrite Hd in E1. inversion E1. reflexivity. }
      rewrite Hsk.
      replace (Z.to_nat (i + Zlength_ pre + 1 - i)) with (S (length pre)) by (unfold Zlength_; lia).
      cbn [firstn]. f_equal. rewrite <- Happ.
      rewrite firstn_app, Nat.sub_diag, firstn_all. cbn [firstn]. apply app_nil_r. }
    rewrite Hslice. rewrite leaf_note_from_parsed_data_ok.
    rewrite group_by_tick_cons. fold pre post. cbn [build_notes].
    destruct (note_from_group c B sps (d :: pre) (last_opt events) hint cursor) as [[[e h'] c']|er];
      cbn [bind]; [|reflexivity].
    rewrite (IH post (i + Zlength_ pre + 1) h' c' (events ++ [e])).
    + rewrite last_opt_snoc.
      destruct (build_notes c B sps (group_by_tick post) (Some e) h' c') as [es|er]; cbn [bind]; [|reflexivity].
      rewrite <- app_assoc. reflexivity.
    + unfold Zlength_. lia.
    + replace (Z.to_nat (i + Zlength_ pre + 1)) with (S (Z.to_nat i) + length pre)%nat by (unfold Zlength_; lia).
      rewrite skipn_add, Hs, <- Happ.
      rewrite skipn_app, Nat.sub_diag, skipn_all. reflexivity.
    + unfold Zlength_. lia.
    + lia.
Qed.

(** * Main theorem *)
Theorem leaf_build_note_events_ok :
  forall c datas sps B,
    leaf_build_note_events c datas sps B = build_notes c B sps (group_by_tick datas) None 0 0.
Proof.
  intros c datas sps B. rewrite leaf_build_note_events_unfold.
  rewrite (outer_loop c datas sps B (S (length datas)) datas 0 0 0 []); try (cbn; lia); try reflexivity.
  change (last_opt (@nil note_event)) with (@None note_event).
  destruct (build_notes c B sps (group_by_tick datas) None 0 0); reflexivity.
Qed.

Print Assumptions leaf_build_note_events_ok.
