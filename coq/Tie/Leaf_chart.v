(** Tie/Leaf_chart.v — Chart._partition_lines_by_data_section as translated from the current source is the model's [partition]. *)
From Coq Require Import ZArith List Lia ZifyBool ZifyNat.
From CP Require Import Base.Prelude Base.Str Base.Cfg Base.Loops Base.While Model.Lines Model.Chart Gen.Leaf_chart.
Import ListNotations.
Open Scope Z_scope.

Lemma py_islice_islice {A} (l : list A) (f : option nat) (i : nat) :
  py_islice l (option_map Z.of_nat f) (Z.of_nat i - 1 + 1) = islice l f i.
Proof.
  unfold py_islice, islice. destruct f as [n|]; cbn [option_map].
  - rewrite Nat2Z.id. f_equal. lia.
  - cbn [Z.to_nat]. f_equal. lia.
Qed.

Definition gstate := (option str * option Z * option Z * list (str * list str))%type.

Definition R (g : gstate) (st : pstate) : Prop :=
  let '(tag, first, _, d) := g in
  tag = ps_tag st /\ first = option_map Z.of_nat (ps_first st) /\ d = ps_dict st.

Definition gbody (c : cfg) (lines : list str) : gstate -> Z * str -> result gstate :=
  fun '(curr_header_tag, curr_first_line_index, curr_last_line_index, d) '(i, line) =>
  match curr_header_tag with
  | None => let* m_g1 := (dec_header c line) in
  let curr_header_tag := m_g1 in
  Ok ((Some curr_header_tag), curr_first_line_index, curr_last_line_index, d)
  | Some curr_header_tag =>
  if (str_eqb line (of_string "{"%string)) then let curr_first_line_index := (i + 1) in
  Ok ((Some curr_header_tag), (Some curr_first_line_index), curr_last_line_index, d) else
  if (str_eqb line (of_string "}"%string)) then let curr_last_line_index := (i - 1) in
  let d := (dict_set curr_header_tag (py_islice lines curr_first_line_index (curr_last_line_index + 1)) d) in
  let curr_header_tag := (@None str) in
  let curr_first_line_index := (@None Z) in
  let curr_last_line_index := (@None Z) in
  Ok (curr_header_tag, curr_first_line_index, curr_last_line_index, d) else
  Ok ((Some curr_header_tag), curr_first_line_index, curr_last_line_index, d)
  end.

Lemma leaf_partition_unfold c lines :
  leaf_partition c lines =
  let* (_, _, _, d) := foldM (gbody c lines) (enumerate_Z lines) (None, None, None, []) in Ok d.
Proof. reflexivity. Qed.

Lemma step_sim c lines g st i line :
  R g st ->
  match gbody c lines g (Z.of_nat i, line), pstep c lines st i line with
  | Ok g', Ok st' => R g' st'
  | Err e, Err e' => e = e'
  | _, _ => False
  end.
Proof.
  destruct g as [[[tag first] last] d]. unfold R. intros (Ht & Hf & Hd). subst tag first d.
  unfold gbody, pstep. destruct (ps_tag st) as [t|] eqn:Et.
  - change (of_string "{"%string) with OPEN_BRACE. change (of_string "}"%string) with CLOSE_BRACE.
    destruct (str_eqb line OPEN_BRACE); [cbn; repeat split; f_equal; lia|].
    destruct (str_eqb line CLOSE_BRACE); cbn; rewrite ?py_islice_islice; repeat split; try reflexivity; symmetry; exact Et.
  - destruct (dec_header c line) as [h|e]; cbn; [repeat split | reflexivity].
Qed.

Lemma loop_sim c lines : forall rest i g st,
  R g st ->
  match foldM (gbody c lines) (enumerate_from (Z.of_nat i) rest) g, ploop c lines st i rest with
  | Ok g', Ok st' => R g' st'
  | Err e, Err e' => e = e'
  | _, _ => False
  end.
Proof.
  induction rest as [|l rest IH]; intros i g st HR; cbn [enumerate_from foldM ploop].
  - exact HR.
  - pose proof (step_sim c lines g st i l HR) as Hs.
    destruct (gbody c lines g (Z.of_nat i, l)) as [g'|e], (pstep c lines st i l) as [st'|e']; cbn [bind]; try contradiction; [|exact Hs].
    replace (Z.of_nat i + 1) with (Z.of_nat (S i)) by lia. apply IH. exact Hs.
Qed.

Theorem leaf_partition_ok : forall c lines, leaf_partition c lines = partition c lines.
Proof.
  intros c lines. rewrite leaf_partition_unfold. unfold partition, enumerate_Z.
  pose proof (loop_sim c lines lines O (None, None, None, []) {| ps_tag := None; ps_first := None; ps_dict := [] |}) as H.
  cbn [Z.of_nat] in H. specialize (H (conj eq_refl (conj eq_refl eq_refl))).
  destruct (foldM (gbody c lines) (enumerate_from 0 lines) (None, None, None, [])) as [[[[t f] la] d]|e],
           (ploop c lines {| ps_tag := None; ps_first := None; ps_dict := [] |} 0 lines) as [st'|e']; cbn [bind]; try contradiction.
  - destruct H as (_ & _ & Hd). rewrite Hd. reflexivity.
  - rewrite H. reflexivity.
Qed.
Print Assumptions leaf_partition_ok.

(** The framing theorem, stated of the framer as translated from the current source. *)
From CP Require Import Spec.ChartSpec Spec.C06 Properties.C06.
Corollary C06_frame_on_translated_source :
  forall c secs, cfg_ok_chart c = true -> wf_secs secs -> leaf_partition c (lines_of secs) = Ok secs.
Proof. intros c secs H1 H2. rewrite leaf_partition_ok. exact (C06_frame c secs H1 H2). Qed.
