(** Tie/Leaf_hopo.v — NoteEvent._compute_hopo_state as translated from the current source is the model's
    [compute_hopo] (the eighth-triplet divisor being the regenerated constant). *)
From CP Require Import Base.Prelude Base.Cfg Base.Float64 Model.Sync Model.Instrument
  Gen.Leaf_tick Gen.Leaf_special Gen.Leaf_hopo.
Open Scope Z_scope.

Lemma leaf_compute_hopo_state_ok :
  forall c R tick note tap forced prev,
    leaf_compute_hopo_state (eighth_triplet c) R tick note tap forced prev = compute_hopo c R tick note tap forced prev.
Proof.
  intros c R tick note tap forced prev. unfold leaf_compute_hopo_state, compute_hopo.
  destruct prev as [[pt pn]|]; destruct forced, tap; cbn [andb fst snd]; try reflexivity;
    change (leaf_note_duration_to_ticks R (eighth_triplet c)) with (note_duration_to_ticks R (eighth_triplet c));
    destruct (note_duration_to_ticks R (eighth_triplet c)) as [b|e]; cbn [bind]; try reflexivity;
    change (leaf_is_chord note) with (is_chord note);
    destruct (tick - pt <=? b), (lanes_eqb note pn), (is_chord note); reflexivity.
Qed.
