(** Tie/C09.v — the three global-event recognisers regenerated from the current source are the
    reference ones and are tried lyric/section before text. *)
From CP Require Import Base.Prelude Base.Str Base.Regex Base.Cfg Model.Lines Spec.RefRegex Spec.C07 Spec.C09
  Properties.C09 Gen.Src.
Open Scope Z_scope.

Lemma events_ok : cfg_ok_events cfg = true.
Proof. vm_compute. reflexivity. Qed.

Theorem C09_lyric_on_current_source :
  forall s t v, quoted_shape cfg "lyric " s t v -> no_lf v -> short t ->
    try_kinds cfg (order_events cfg) s = Ok (Claimed KLyric (PGlobal KLyric (horner (tbl cfg) t 0) v)).
Proof. exact (C09_lyric cfg events_ok). Qed.
Theorem C09_section_on_current_source :
  forall s t v, quoted_shape cfg "section " s t v -> no_lf v -> short t ->
    try_kinds cfg (order_events cfg) s = Ok (Claimed KSection (PGlobal KSection (horner (tbl cfg) t 0) v)).
Proof. exact (C09_section cfg events_ok). Qed.
Theorem C09_text_on_current_source :
  forall s t v, quoted_shape cfg "" s t v -> no_quote v -> no_lf v ->
    prefixb (S_ "lyric ") v = false -> prefixb (S_ "section ") v = false -> short t ->
    try_kinds cfg (order_events cfg) s = Ok (Claimed KText (PGlobal KText (horner (tbl cfg) t 0) v)).
Proof. exact (C09_text cfg events_ok). Qed.

Example C09_examples :
  map (fun l => match try_kinds cfg (order_events cfg) (esc l) with
                | Ok (Claimed k (PGlobal _ t v)) => Some (k, t, v)
                | _ => None end)
      ["  5 = E ""lyric la ""la"" la"""; "5 = E ""section Solo 1"""; "5 = E ""lyric"""; "5 = E ""section-2"""; "5 = E ""has ""quotes"""""]%string
  = [Some (KLyric, 5, esc "la ""la"" la"%string); Some (KSection, 5, esc "Solo 1"%string);
     Some (KText, 5, esc "lyric"%string); Some (KText, 5, esc "section-2"%string); None].
Proof. vm_compute. reflexivity. Qed.
