(** Tie/C04.v — obligations of C04 on the configuration regenerated from the current source. *)
From CP Require Import Base.Prelude Base.Str Base.Regex Base.Cfg Base.Float64 Base.Timedelta
  Model.Lines Model.Sync Model.Instrument Model.Obs Spec.RefRegex Spec.C04 Properties.C04 Gen.Src.
Open Scope Z_scope.

(** The eighth-triplet divisor of the current source is 3. *)
Lemma eighth_triplet_ok : eighth_triplet cfg = 3.
Proof. vm_compute. reflexivity. Qed.

(** The float threshold on a sweep of resolutions (the all-resolutions lemma is C04_threshold). *)
Example C04_threshold_sweep :
  forallb (fun R => match note_duration_to_ticks R (eighth_triplet cfg) with Ok b => b =? thr R | Err _ => false end)
          (map Z.of_nat (List.seq 1 1000) ++ [1919; 1920; 1921; 4999; 5000; 5001; 1125899906842621; 1125899906842622; 1125899906842623]) = true.
Proof. vm_compute. reflexivity. Qed.

(** Closed form on the current source: every event of every built track carries the decision of
    (its predecessor, itself), for every resolution below 2^50. *)
Theorem C04_on_current_source :
  forall B sps groups notes, 1 <= resolution B < 2 ^ 50 ->
    build_notes cfg B sps groups None 0 0 = Ok notes -> hopo_chain2 (resolution B) None groups notes.
Proof. intros B sps groups notes HR H. exact (C04_track cfg B sps groups notes eighth_triplet_ok HR H). Qed.
