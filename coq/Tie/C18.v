(** Tie/C18.v — every side condition on the configuration regenerated from the current source, and
    the closed corollary: on the current source, for every text with numeric tokens of at most 8 digits
    and every selection, parsing returns a chart or fails with ValueError, RegexNotMatchError or
    MissingRequiredField. *)
From CP Require Import Base.Prelude Base.Str Base.Regex Base.Cfg Model.Chart Spec.C18 Properties.C18 Gen.Src.
Open Scope Z_scope.

Lemma all_ok : cfg_ok_all cfg = true.
Proof. vm_compute. reflexivity. Qed.

Theorem C18_on_current_source :
  forall text want, bounded (tbl cfg) text = true -> documented (from_file cfg text want).
Proof. intros text want H. exact (C18_errors cfg text want all_ok H). Qed.

Theorem C18_struct_on_current_source :
  forall text want, match from_file cfg text want with Ok _ => True | Err e => struct_err e = true end.
Proof. intros text want. exact (C18_struct cfg text want all_ok). Qed.

(** Non-vacuity: bounded texts exist that parse, and that fail in each documented way. *)
Example C18_nonvacuous :
  let t1 := esc "[Song]\10;{\10;Resolution = 192\10;}\10;[SyncTrack]\10;{\10;0 = TS 4\10;0 = B 120000\10;}\10;[Events]\10;{\10;}\10;"%string in
  let t2 := esc "[Song\10;{\10;}\10;"%string in
  let t3 := esc "[Song]\10;{\10;}\10;[SyncTrack]\10;{\10;}\10;[Events]\10;{\10;}\10;"%string in
  let t4 := esc "[Song]\10;{\10;Resolution = 0\10;}\10;[SyncTrack]\10;{\10;0 = TS 4\10;0 = B 120000\10;}\10;[Events]\10;{\10;}\10;"%string in
  (forallb (bounded (tbl cfg)) [t1; t2; t3; t4],
   match from_file cfg t1 None with Ok _ => true | _ => false end,
   match from_file cfg t2 None with Err ERegexNotMatch => true | _ => false end,
   match from_file cfg t3 None with Err EMissingRequiredField => true | _ => false end,
   match from_file cfg t4 None with Err EValue => true | _ => false end) = (true, true, true, true, true).
Proof. vm_compute. reflexivity. Qed.
