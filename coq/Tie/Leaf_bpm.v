(** Tie/Leaf_bpm.v — the tempo-event pipeline as translated from the current source is the model's:
    BPMEvent.__post_init__ = [check_bpm_3dp], BPMEvent.from_parsed_data = [bpm_from_data] (decode of the raw
    numeral, strict tick order, the timestamp accumulated from the previous event, the stored index),
    BPMEvents.__post_init__ = the guards of [mk_bpm_events], the accumulation loop data_to_bpm_events of
    track.build_events_from_data = [build_bpm_events], and timestamp_at_tick_no_optimize_return. *)
From Coq Require Import ZArith List Lia ZifyBool.
From CP Require Import Base.Prelude Base.Str Base.Cfg Base.Loops Base.Float64 Base.Timedelta Model.Lines Model.Sync
  Gen.Leaf_tick Gen.Leaf_bpm Tie.Leaf_tick.
Import ListNotations.
Open Scope Z_scope.

Lemma leaf_bpm_post_init_ok : forall b, leaf_bpm_post_init b = check_bpm_3dp b.
Proof.
  intro b. unfold leaf_bpm_post_init, check_bpm_3dp.
  destruct (py_round3 b) as [r|e]; cbn [bind]; [|reflexivity].
  destruct (f_eq r b); reflexivity.
Qed.

Lemma leaf_bpm_from_parsed_data_ok :
  forall T tick raw prev R, leaf_bpm_from_parsed_data T tick raw prev R = bpm_from_data T tick raw prev R.
Proof.
  intros T tick raw prev R. unfold leaf_bpm_from_parsed_data, bpm_from_data, decode_bpm.
  destruct (py_int T raw) as [n|e]; cbn [bind]; [|reflexivity].
  destruct (py_truediv_int n 1000) as [bpm|e]; cbn [bind]; [|reflexivity].
  destruct prev as [p|]; [|reflexivity].
  destruct (tick <=? b_tick p); cbn [bind]; [reflexivity|].
  rewrite leaf_seconds_ok. change (leaf_tick_between (b_tick p) tick) with (tick_between (b_tick p) tick).
  destruct (seconds (tick_between (b_tick p) tick) (b_bpm p) R) as [s|e]; cbn [bind]; [|reflexivity].
  destruct (td_of_seconds s) as [d|e]; cbn [bind]; [|reflexivity].
  destruct (td_add (b_ts p) d) as [ts|e]; cbn [bind]; reflexivity.
Qed.

Lemma leaf_bpm_events_post_init_ok :
  forall es R, mk_bpm_events es R = let* _ := leaf_bpm_events_post_init es R in Ok {| evs := es; resolution := R |}.
Proof.
  intros es R. unfold mk_bpm_events, leaf_bpm_events_post_init.
  destruct (R <=? 0); [reflexivity|].
  destruct es as [|e0 es']; [reflexivity|].
  assert (H : (Zlength_ (e0 :: es') =? 0) = false) by (unfold Zlength_; cbn [length]; lia).
  rewrite H. change (seq_get (e0 :: es') 0) with (Ok e0). cbn [bind].
  destruct (b_tick e0 =? 0); reflexivity.
Qed.

Lemma fold_prev_bpm T R : forall datas prev,
  fold_prev_aux (fun d p => bpm_from_data_py T d p R) datas prev = build_bpm_list T datas prev R.
Proof.
  induction datas as [|[tick raw] ds IH]; intro prev; [reflexivity|].
  cbn [fold_prev_aux build_bpm_list]. unfold bpm_from_data_py at 1. cbn [fst snd].
  destruct (bpm_from_data T tick raw prev R) as [e|err]; cbn [bind]; [|reflexivity].
  rewrite IH. reflexivity.
Qed.

Lemma leaf_data_to_bpm_events_ok :
  forall T datas R, leaf_data_to_bpm_events T datas R = build_bpm_events T datas R.
Proof.
  intros T datas R. unfold leaf_data_to_bpm_events, build_bpm_events, fold_prev.
  rewrite fold_prev_bpm. reflexivity.
Qed.

(** The whole pipeline from the decoded lines to the wrapped tempo list, every step being the translated source. *)
Theorem leaf_bpm_pipeline :
  forall T datas R,
    build_bpm_events T datas R
    = let* events := fold_prev (fun d p => leaf_bpm_from_parsed_data T (fst d) (snd d) p R) datas in
      let* _ := leaf_bpm_events_post_init events R in Ok {| evs := events; resolution := R |}.
Proof.
  intros T datas R. rewrite <- leaf_data_to_bpm_events_ok. unfold leaf_data_to_bpm_events.
  assert (E : (fun d p => bpm_from_data_py T d p R) = (fun d p => leaf_bpm_from_parsed_data T (fst d) (snd d) p R) -> True) by trivial.
  unfold fold_prev.
  assert (F : forall datas prev, fold_prev_aux (fun d p => bpm_from_data_py T d p R) datas prev
                               = fold_prev_aux (fun d p => leaf_bpm_from_parsed_data T (fst d) (snd d) p R) datas prev).
  { induction datas0 as [|d ds IH]; intro prev; [reflexivity|]. cbn [fold_prev_aux].
    unfold bpm_from_data_py at 1. rewrite <- leaf_bpm_from_parsed_data_ok.
    destruct (leaf_bpm_from_parsed_data T (fst d) (snd d) prev R); cbn [bind]; [rewrite IH|]; reflexivity. }
  rewrite F.
  destruct (fold_prev_aux _ datas None) as [es|e]; cbn [bind]; [|reflexivity].
  apply leaf_bpm_events_post_init_ok.
Qed.

Lemma leaf_timestamp_at_tick_no_optimize_return_ok :
  forall B tick, leaf_timestamp_at_tick_no_optimize_return B tick = timestamp_at_tick_no_optimize_return B tick.
Proof. reflexivity. Qed.

(** Anchors: AnchorEvent.from_parsed_data and the anchor loop of build_events_from_data. *)
Lemma leaf_anchor_from_parsed_data_ok : forall t us, leaf_anchor_from_parsed_data t us = anchor_from (PAnchor t us).
Proof. intros t us. unfold leaf_anchor_from_parsed_data, anchor_from, mk_anchor. destruct (td_of_us us); reflexivity. Qed.

Lemma leaf_data_to_anchor_events_ok : forall ds, leaf_data_to_anchor_events ds = mapM anchor_from ds.
Proof.
  intro ds. unfold leaf_data_to_anchor_events, anchor_from_py.
  change (fun data : pdata => anchor_from data) with anchor_from.
  destruct (mapM anchor_from ds); reflexivity.
Qed.
