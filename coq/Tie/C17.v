(** Tie/C17.v — the static purity scan of the current source (tools/purity.py through tools/extract.py):
    the only process-wide mutable state are the four memo tables, each memoised function is a function
    of its parameters, no function has a mutable default, no module- or class-level container is ever
    mutated by a function.  Under these facts the caches of Model/InstrumentMemo.v are the package's
    whole cross-call state and the C17 theorems apply. *)
From CP Require Import Base.Prelude Base.Str Base.Regex Base.Cfg Model.Instrument Model.InstrumentMemo
  Properties.C17 Gen.Src.
From Coq Require Import String.
Open Scope string_scope.

Lemma purity_ok : forallb snd src_purity = true.
Proof. vm_compute. reflexivity. Qed.

(** The four memoised functions are present (so the scan did look at them). *)
Lemma memoised_functions_seen :
  forallb (fun n => existsb (fun p => if String.eqb (String.substring 0 (String.length n) (fst p)) n then true else false) src_purity)
          ["instrument._refined_sustain_tuple:"; "instrument.is_chord:"; "instrument.is_5_note:"; "tick.note_duration_to_ticks:"] = true.
Proof. vm_compute. reflexivity. Qed.

(** Non-vacuity: a history of two sections sharing sustain tuples, with a cache that is evicted
    completely before every call, computes exactly the parser's notes (booleans only). *)
Example C17_nonvacuous :
  forall ev (ss : list note_section),
    snd (mrun_history ev (map section_prog ss) nil) = map section_notes ss.
Proof. intros ev ss. exact (C17_sections_after_any_history unit (fun _ _ => true) nil ev ss). Qed.
