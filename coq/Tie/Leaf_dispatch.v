(** Tie/Leaf_dispatch.v — track.parse_data_from_chart_lines (the first-match dispatcher with its warning) as translated from the current
    source is the model's [dispatch]: the per-kind data are [data_of] and the warnings are [warnings_of]. *)
From Coq Require Import ZArith List Lia.
From CP Require Import Base.Prelude Base.Str Base.Cfg Base.Loops Base.While Model.Lines Gen.Leaf_dispatch.
Import ListNotations.
Open Scope Z_scope.

Definition pdm_step (m : pdm) (o : line_outcome) : pdm :=
  match o with Claimed k d => pdm_append m k d | Unparsable _ => m end.
Definition pdm_of (outs : list line_outcome) : pdm := fold_left pdm_step outs pdm_empty.

Lemma first_match_try_kinds c line : forall order,
  first_match (fun t => dec c t line) order
  = match try_kinds c order line with
    | Ok (Claimed k d) => Ok (Some (k, d))
    | Ok (Unparsable _) => Ok None
    | Err e => Err e
    end.
Proof.
  induction order as [|k ks IH]; cbn [first_match try_kinds]; [reflexivity|].
  destruct (dec c k line) as [d|e]; [reflexivity|].
  destruct e; try reflexivity. exact IH.
Qed.

Lemma try_kinds_unparsable c line : forall order l, try_kinds c order line = Ok (Unparsable l) -> l = line.
Proof.
  induction order as [|k ks IH]; cbn [try_kinds]; intros l H; [congruence|].
  destruct (dec c k line) as [d|e]; [discriminate|]. destruct e; try discriminate. apply IH. exact H.
Qed.

Lemma loop_ok c order : forall lines m log_,
  foldM (fun '(m, log_) line =>
           let* r_ := first_match (fun t => dec c t line) order in
           match r_ with
           | Some (t, data) => Ok (pdm_append m t data, log_)
           | None => Ok (m, log_ ++ [line])
           end) lines (m, log_)
  = let* outs := dispatch c order lines in Ok (fold_left pdm_step outs m, log_ ++ warnings_of outs).
Proof.
  unfold dispatch. induction lines as [|l ls IH]; intros m lg; cbn [foldM mapM].
  - cbn [bind fold_left warnings_of flat_map]. rewrite app_nil_r. reflexivity.
  - rewrite first_match_try_kinds.
    destruct (try_kinds c order l) as [[k d|l']|e] eqn:E; cbn [bind]; [| |reflexivity].
    + rewrite IH. destruct (mapM (try_kinds c order) ls) as [outs|e]; cbn [bind]; reflexivity.
    + apply try_kinds_unparsable in E. subst l'. rewrite IH.
      destruct (mapM (try_kinds c order) ls) as [outs|e]; cbn [bind]; [|reflexivity].
      cbn [fold_left pdm_step warnings_of flat_map]. rewrite <- app_assoc. reflexivity.
Qed.

Theorem leaf_parse_data_from_chart_lines_ok : forall c order lines,
  leaf_parse_data_from_chart_lines c order lines
  = let* outs := dispatch c order lines in Ok (pdm_of outs, warnings_of outs).
Proof.
  intros c order lines. unfold leaf_parse_data_from_chart_lines. rewrite loop_ok.
  destruct (dispatch c order lines) as [outs|e]; reflexivity.
Qed.

(** What a look-up of one kind in the resulting map yields. *)
Lemma pdm_get_append_same m k d : pdm_get (pdm_append m k d) k = pdm_get m k ++ [d].
Proof.
  induction m as [|[k' ds] m IH]; unfold pdm_get in *; cbn [pdm_append find fst snd].
  - replace (kind_eqb k k) with true by (symmetry; apply kind_eqb_eq; reflexivity). reflexivity.
  - destruct (kind_eqb k k') eqn:E; cbn [find fst snd]; rewrite E; [reflexivity | exact IH].
Qed.

Lemma pdm_get_append_other m k k' d : kind_eqb k k' = false -> pdm_get (pdm_append m k' d) k = pdm_get m k.
Proof.
  intro Hne. induction m as [|[k2 ds] m IH]; unfold pdm_get in *; cbn [pdm_append find fst snd].
  - rewrite Hne. reflexivity.
  - destruct (kind_eqb k' k2) eqn:E; cbn [find fst snd].
    + destruct (kind_eqb k k2) eqn:E2; [|reflexivity].
      apply kind_eqb_eq in E. apply kind_eqb_eq in E2. subst k2 k'.
      assert (kind_eqb k k = true) by (apply kind_eqb_eq; reflexivity). congruence.
    + destruct (kind_eqb k k2) eqn:E2; [reflexivity | exact IH].
Qed.

Theorem pdm_of_get : forall outs k, pdm_get (pdm_of outs) k = data_of k outs.
Proof.
  intros outs k. unfold pdm_of.
  assert (G : forall outs m, pdm_get (fold_left pdm_step outs m) k = pdm_get m k ++ data_of k outs).
  { induction outs0 as [|o os IH]; intro m; cbn [fold_left data_of flat_map]; [rewrite app_nil_r; reflexivity|].
    rewrite IH. destruct o as [k' d|l]; cbn [pdm_step].
    - destruct (kind_eqb k k') eqn:E.
      + assert (k = k') by (apply kind_eqb_eq; exact E). subst k'.
        rewrite pdm_get_append_same, <- app_assoc. reflexivity.
      + rewrite pdm_get_append_other by exact E. reflexivity.
    - reflexivity. }
  rewrite G. reflexivity.
Qed.
Print Assumptions leaf_parse_data_from_chart_lines_ok.
