(** Tie/Leaf_nps.v — InstrumentTrack.last_note_end_timestamp, Chart._notes_per_second and Chart.notes_per_second (track look-up,
    the note-less and assertion paths, the type dispatch on tick / timestamp / omitted bounds) as translated from the current
    source are the model's [last_note_end], [nps_core] and [notes_per_second]. *)
From Coq Require Import ZArith List Lia ZifyBool.
From CP Require Import Base.Prelude Base.Str Base.Cfg Base.Loops Base.While Base.Float64 Base.Timedelta
  Model.Lines Model.Sync Model.Instrument Model.Chart Gen.Leaf_nps.
Import ListNotations.
Open Scope Z_scope.

Lemma leaf_last_note_end_timestamp_ok : forall tr, leaf_last_note_end_timestamp tr = Ok (last_note_end tr).
Proof.
  intro tr. unfold leaf_last_note_end_timestamp, last_note_end.
  destruct (it_notes tr) as [|e es]; [reflexivity|].
  assert (H : (Zlength_ (e :: es) =? 0) = false) by (unfold Zlength_; cbn [length]; lia).
  rewrite H. reflexivity.
Qed.

Lemma leaf_nps_core_ok : forall notes a b, leaf_nps_core notes a b = nps_core notes a b.
Proof.
  intros notes a b. unfold leaf_nps_core, nps_core, n_ts_.
  destruct (td_sub b a) as [d|e]; cbn [bind]; [|reflexivity].
  destruct (total_seconds d) as [secs|e]; cbn [bind]; reflexivity.
Qed.

Theorem leaf_notes_per_second_ok : forall ch i d s e,
  leaf_notes_per_second ch i d s e = notes_per_second ch i d s e.
Proof.
  intros ch i d s e. unfold leaf_notes_per_second, notes_per_second, track_lookup, dict_get.
  destruct (assoc i (c_tracks ch)) as [inner|]; cbn [bind]; [|reflexivity].
  destruct (assoc d inner) as [tr|]; cbn [bind]; [|reflexivity].
  destruct (it_notes tr) as [|n0 ns] eqn:En.
  - reflexivity.
  - assert (H : (Zlength_ (n0 :: ns) =? 0) = false) by (unfold Zlength_; cbn [length]; lia).
    rewrite H. destruct (last_note_end tr) as [last|]; [|reflexivity].
    destruct s as [|ts|ta], e as [|te|tb]; cbn [bind];
      rewrite ?leaf_nps_core_ok;
      try reflexivity;
      repeat match goal with
             | |- context [timestamp_at_tick_no_optimize_return ?B ?t] =>
                 destruct (timestamp_at_tick_no_optimize_return B t); cbn [bind]
             end;
      rewrite ?leaf_nps_core_ok; reflexivity.
Qed.
Print Assumptions leaf_notes_per_second_ok.

(** The property's main theorem, stated of the function as translated from the current source. *)
From CP Require Import Spec.C16 Properties.C16.
Corollary C16_main_on_translated_source :
  forall ch i d s e, consistent s e = true -> in_range ch i d s e ->
    leaf_notes_per_second ch i d s e = spec_nps ch i d s e.
Proof. intros ch i d s e H1 H2. rewrite leaf_notes_per_second_ok. exact (C16_main ch i d s e H1 H2). Qed.

(** [Chart.__getitem__] as translated from the current source is the subscript step of the chart-state model
    (Model/ChartState.v, a plain dict: no auto-insertion): the inner mapping's keys, or KeyError, and the state unchanged. *)
From CP Require Import Model.ChartState.
Theorem leaf_chart_getitem_ok : forall st i, cs_extra st = [] ->
  step false st (OGetItem i) =
  (st, match leaf_chart_getitem (cs_chart st) i with Ok inner => RKeys (map fst inner) | Err e => RErr e end).
Proof.
  intros st i H. unfold leaf_chart_getitem, dict_get. cbn [step].
  destruct (assoc i (c_tracks (cs_chart st))) as [inner|]; [reflexivity|].
  rewrite H. cbn. reflexivity.
Qed.
Print Assumptions leaf_chart_getitem_ok.
