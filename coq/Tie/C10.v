(** Tie/C10.v — the 24 metadata recognisers, kinds, requiredness and defaults regenerated from the
    current source are the documented ones. *)
From CP Require Import Base.Prelude Base.Str Base.Regex Base.Cfg Model.Lines Model.Chart
  Spec.RefRegex Spec.C07 Spec.C10 Properties.C10 Gen.Src.
Open Scope Z_scope.

Lemma meta_ok : cfg_ok_meta cfg = true.
Proof. vm_compute. reflexivity. Qed.
Lemma C10_ok : cfg_ok_C10 cfg = true.
Proof. vm_compute. reflexivity. Qed.

Theorem C10_disjoint_on_current_source :
  forall f1 f2, In f1 (meta_fields cfg) -> In f2 (meta_fields cfg) -> mf_pascal f1 <> mf_pascal f2 ->
    forall s, ~ (accepts cfg f1 s = true /\ accepts cfg f2 s = true).
Proof. exact (C10_disjoint cfg meta_ok). Qed.

Theorem C10_str_verbatim_on_current_source :
  forall f, In f (meta_fields cfg) -> mf_kind f = MStr ->
    forall s v, meta_shape cfg (mf_pascal f) true v true s -> v <> [] -> Forall (fun ch => ch <> LF) v ->
      accepts cfg f s = true /\ meta_capture cfg f s = Some v /\ meta_process cfg f v = Ok (MVStr v).
Proof. exact (C10_str_verbatim cfg meta_ok). Qed.

Theorem C10_required_on_current_source :
  forall lines,
    (forall f, In f (meta_fields cfg) -> mf_pascal f = of_string "Resolution" -> find (accepts cfg f) lines = None) ->
    meta_parse cfg lines = Err EMissingRequiredField.
Proof. exact (C10_required cfg C10_ok). Qed.

(** Non-vacuity: a value with inner quotes, '=', another field's whole line, and trailing blanks. *)
Example C10_nonvacuous :
  match meta_parse cfg (map esc ["  Artist = ""Name = ""Foo"" ""  "; "Resolution = 480"; "  Name = ""x"""; "Player2 = rhythm"]%string) with
  | Ok m => (assoc (esc "artist"%string) m, assoc (esc "name"%string) m, assoc (esc "resolution"%string) m,
             assoc (esc "player2"%string) m, assoc (esc "genre"%string) m)
  | Err _ => (None, None, None, None, None)
  end = (Some (MVStr (esc "Name = ""Foo"" "%string)), Some (MVStr (esc "x"%string)), Some (MVInt 480),
         Some (MVEnum (esc "rhythm"%string)), Some (MVStr (esc "rock"%string))).
Proof. vm_compute. reflexivity. Qed.
