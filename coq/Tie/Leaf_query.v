(** Tie/Leaf_query.v — BPMEvents._index_of_proximal_event (incl. its forward-scan loop) and
    BPMEvents.timestamp_at_tick as translated from the current source are the model's
    [index_of_proximal] (for hints >= 0) and [timestamp_at_tick]. *)
From CP Require Import Base.Prelude Base.Loops Base.Float64 Base.Timedelta Model.Sync Gen.Leaf_tick Gen.Leaf_query.
From Coq Require Import ZifyBool ZifyNat.
Open Scope Z_scope.

Lemma nth_Z_skipn {A} (l : list A) h x rest : 0 <= h -> skipn (Z.to_nat h) l = x :: rest -> nth_Z l h = Some x.
Proof.
  intros Hh H. unfold nth_Z. replace (h <? 0) with false by lia.
  revert l H. generalize (Z.to_nat h) as n. induction n as [|n IH]; intros [|y l] H; cbn in *; try discriminate.
  - inversion H; reflexivity.
  - apply IH; exact H.
Qed.

Lemma skipn_succ {A} (l : list A) n x rest : skipn n l = x :: rest -> skipn (S n) l = rest.
Proof.
  revert l. induction n as [|n IH]; intros [|y l] H; cbn in *; try discriminate.
  - inversion H; reflexivity.
  - apply IH; exact H.
Qed.

(** The translated loop computes the model's scan. *)
Lemma for_first_scan es tick : forall rest first h,
  0 <= h -> skipn (Z.to_nat h) es = first :: rest ->
  for_first_fuel (length rest) h (h + Z.of_nat (length rest))
    (fun index => let* x1 := seq_get es (index + 1) in Ok (tick <? b_tick x1))
    (Ok (h + Z.of_nat (length rest)))
  = Ok (scan_from (first :: rest) h tick).
Proof.
  induction rest as [|nxt rest IH]; intros first h Hh Hs.
  - cbn. rewrite Z.add_0_r. reflexivity.
  - cbn [length for_first_fuel scan_from].
    replace (h + Z.of_nat (S (length rest)) <=? h) with false by lia.
    assert (Hs' : skipn (Z.to_nat (h + 1)) es = nxt :: rest).
    { replace (Z.to_nat (h + 1)) with (S (Z.to_nat h)) by lia. eapply skipn_succ; exact Hs. }
    unfold seq_get at 1. rewrite (nth_Z_skipn es (h + 1) nxt rest) by (try lia; exact Hs'). cbn [bind].
    destruct (tick <? b_tick nxt); [reflexivity|].
    replace (h + Z.of_nat (S (length rest))) with ((h + 1) + Z.of_nat (length rest)) by lia.
    apply (IH nxt (h + 1)); [lia|exact Hs'].
Qed.

Lemma leaf_index_of_proximal_ok : forall es tick h, 0 <= h ->
  leaf_index_of_proximal es tick h = index_of_proximal es tick h.
Proof.
  intros es tick h Hh. unfold leaf_index_of_proximal, index_of_proximal.
  replace (h <? 0) with false by lia.
  destruct (Zlength_ es - 1 <? h) eqn:El; [reflexivity|].
  destruct (skipn (Z.to_nat h) es) as [|first rest] eqn:Es.
  - exfalso. assert (Hl : length (skipn (Z.to_nat h) es) = 0%nat) by (rewrite Es; reflexivity).
    rewrite skipn_length in Hl. unfold Zlength_ in El. lia.
  - unfold seq_get at 1. rewrite (nth_Z_skipn es h first rest Hh Es). cbn [bind].
    destruct (tick <? b_tick first); [reflexivity|].
    assert (Hlen : Zlength_ es - 1 = h + Z.of_nat (length rest)).
    { unfold Zlength_. assert (length (skipn (Z.to_nat h) es) = S (length rest)) by (rewrite Es; reflexivity).
      rewrite skipn_length in H. lia. }
    unfold for_first. rewrite Hlen.
    replace (Z.to_nat (h + Z.of_nat (length rest) - h)) with (length rest) by lia.
    apply for_first_scan; assumption.
Qed.

Lemma leaf_timestamp_at_tick_ok : forall B tick h, leaf_timestamp_at_tick B tick h = timestamp_at_tick B tick h.
Proof.
  intros B tick h. unfold leaf_timestamp_at_tick, timestamp_at_tick.
  destruct (index_of_proximal (evs B) tick h) as [idx|e]; cbn [bind]; [|reflexivity].
  unfold seq_get. destruct (nth_Z (evs B) idx) as [p|]; cbn [bind]; [|reflexivity].
  change (leaf_seconds (leaf_tick_between (b_tick p) tick) (b_bpm p) (resolution B))
    with (seconds (tick_between (b_tick p) tick) (b_bpm p) (resolution B)).
  destruct (seconds (tick_between (b_tick p) tick) (b_bpm p) (resolution B)) as [s|e]; cbn [bind]; [|reflexivity].
  destruct (time_add_seconds (b_ts p) s); reflexivity.
Qed.
