(** Tie/Leaf_query.v — BPMEvents.timestamp_at_tick as translated from the current source is the model's
    [timestamp_at_tick] (the index search [_index_of_proximal_event] is a loop and stays hand-modelled). *)
From CP Require Import Base.Prelude Base.Float64 Base.Timedelta Model.Sync Gen.Leaf_tick Gen.Leaf_query.
Open Scope Z_scope.

Lemma leaf_timestamp_at_tick_ok : forall B tick h, leaf_timestamp_at_tick B tick h = timestamp_at_tick B tick h.
Proof.
  intros B tick h. unfold leaf_timestamp_at_tick, timestamp_at_tick.
  destruct (index_of_proximal (evs B) tick h) as [idx|e]; cbn [bind]; [|reflexivity].
  destruct (nth_Z (evs B) idx) as [p|]; cbn [bind]; [|reflexivity].
  change (leaf_seconds (leaf_tick_between (b_tick p) tick) (b_bpm p) (resolution B))
    with (seconds (tick_between (b_tick p) tick) (b_bpm p) (resolution B)).
  destruct (seconds (tick_between (b_tick p) tick) (b_bpm p) (resolution B)) as [s|e]; cbn [bind]; [|reflexivity].
  destruct (time_add_seconds (b_ts p) s); reflexivity.
Qed.
