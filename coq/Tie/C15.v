(** Tie/C15.v — C15 on the tables of the current source, and non-vacuity. *)
From CP Require Import Base.Prelude Base.Str Base.Regex Base.Cfg Base.Float64 Base.Timedelta
  Model.Lines Model.Sync Model.Obs Spec.C11 Spec.C15 Properties.C15 Gen.Src.
Open Scope Z_scope.

Theorem C15_on_current_source :
  forall datas R, untrustworthy datas R -> forall B, build_bpm_events (tbl cfg) datas R <> Ok B.
Proof. exact (C15_never_ok (tbl cfg)). Qed.

(** Single corruptions at several positions of a four-tempo map all end in ValueError. *)
Definition base : list (Z * String.string) := [(0, "120000"); (100, "60000"); (200, "90000"); (300, "240000")]%string.
Definition build (l : list (Z * String.string)) (R : Z) := build_bpm_events (tbl cfg) (map (fun p => (fst p, esc (snd p))) l) R.
Definition is_value_error {A} (r : result A) : bool := match r with Err EValue => true | _ => false end.
Example C15_nonvacuous :
  is_ok (build base 192) = true /\
  forallb (fun l => is_value_error (build l 192))
    [ []; tl base;                                                        (* no tempo; no tempo at tick 0 *)
      [(0, "120000"); (100, "60000"); (100, "90000"); (300, "240000")];   (* duplicated tick *)
      [(0, "120000"); (200, "60000"); (100, "90000"); (300, "240000")];   (* swapped *)
      [(0, "120000"); (100, "60000"); (200, "90000"); (150, "240000")];   (* last out of order *)
      [(0, "120000"); (100, "0"); (200, "90000"); (300, "240000")];       (* zero tempo followed by another *)
      [(5, "120000")] ]%string = true /\
  is_value_error (build base 0) = true /\ is_value_error (build base (-3)) = true /\
  (* a zero tempo that is last builds, but nothing governed by it ever gets a time *)
  match build [(0, "120000"); (100, "0")]%string 192 with
  | Ok B => is_ok (timestamp_at_tick B 99 0) && is_value_error (timestamp_at_tick B 100 0)
            && is_value_error (timestamp_at_tick B 5000 1) && is_value_error (timestamp_at_tick B (-1) 0)
  | Err _ => false
  end = true.
Proof. vm_compute. repeat split; reflexivity. Qed.
