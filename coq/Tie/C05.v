(** Tie/C05.v — C05 on the configuration regenerated from the current source, and non-vacuity. *)
From CP Require Import Base.Prelude Base.Str Base.Regex Base.Cfg Base.Float64 Base.Timedelta
  Model.Lines Model.Sync Model.Instrument Model.Obs Spec.C05 Properties.C05 Gen.Src.
From Coq Require Import Sorted.
Open Scope Z_scope.

Theorem C05_on_current_source :
  forall instr diff lines B tr ws,
    itrack_from_lines cfg instr diff lines B = Ok (tr, ws) ->
    Sorted Z.le (map sp_tick (it_sps tr)) ->
    Sorted Z.le (map n_tick (it_notes tr)) ->
    Forall (fun e => n_sp e = spec_sp (it_sps tr) (n_tick e)) (it_notes tr).
Proof. intros; eapply C05_from_lines; eauto. Qed.

(** Non-vacuity: nested, touching, zero-length phrases; notes at start-1, start, end-1, end. *)
Definition ex_sps : list special_event :=
  [mkSP 0 0 0 1000; mkSP 100 0 0 50; mkSP 100 0 0 0; mkSP 1000 0 0 10; mkSP 1010 0 0 5].
Definition ex_ticks : list Z := [0; 99; 100; 149; 150; 999; 1000; 1009; 1010; 1014; 1015; 2000].
Example C05_nonvacuous :
  Sorted Z.le (map sp_tick ex_sps) /\ Sorted Z.le ex_ticks /\
  run_cursor ex_sps ex_ticks 0 =
    Ok [Some 0; Some 0; Some 0; Some 0; Some 0; Some 0; Some 3; Some 3; Some 4; Some 4; None; None].
Proof.
  split; [|split].
  - cbn. repeat (constructor; [|constructor; try lia]). constructor.
  - unfold ex_ticks. repeat (constructor; [|constructor; try lia]). constructor.
  - vm_compute; reflexivity.
Qed.
