(** Tie/Leaf_tick.v — the bodies of chartparse/tick.py, translated from the current source by
    tools/extract_leaf.py, ARE the model's definitions. *)
From CP Require Import Base.Prelude Base.Float64 Model.Sync Gen.Leaf_tick.
Open Scope Z_scope.

Lemma leaf_tick_add_ok : forall a b, leaf_tick_add a b = tick_add a b.          Proof. reflexivity. Qed.
Lemma leaf_tick_sum_ok : forall a b, leaf_tick_sum a b = a + b.                 Proof. reflexivity. Qed.
Lemma leaf_tick_difference_ok : forall a b, leaf_tick_difference a b = a - b.   Proof. reflexivity. Qed.
Lemma leaf_tick_between_ok : forall a b, leaf_tick_between a b = tick_between a b.  Proof. reflexivity. Qed.
Lemma leaf_seconds_ok : forall ticks bpm R, leaf_seconds ticks bpm R = seconds ticks bpm R.
Proof. reflexivity. Qed.
Lemma leaf_note_duration_to_ticks_ok : forall R dv, leaf_note_duration_to_ticks R dv = note_duration_to_ticks R dv.
Proof. reflexivity. Qed.
