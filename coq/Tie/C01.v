(** Tie/C01.v — C01 on the tables of the current source, and non-vacuity. *)
From CP Require Import Base.Prelude Base.Str Base.Regex Base.Cfg Base.Float64 Base.Timedelta
  Model.Lines Model.Sync Model.Obs Spec.C11 Spec.Tempo Spec.C01 Properties.C01 Gen.Src.
From Coq Require Import Reals.
Open Scope Z_scope.

(** Every tempo list built with the current source's tables from numerals 1 <= n < 2^52 satisfies the
    invariant and matches the written tempo map, so C01_query applies to it. *)
Theorem C01_on_current_source :
  forall datas tm res B t,
    Forall2 (fun d p => fst d = fst p /\ py_int (tbl cfg) (snd d) = Ok (snd p) /\ 1 <= snd p < 2 ^ 52) datas tm ->
    build_bpm_events (tbl cfg) datas res = Ok B ->
    wf_query res tm t ->
    exists us, timestamp_at_tick B t 0 = Ok (us, gov (evs B) t) /\
               (Rabs (IZR us - exact_from res tm t) <= slack (segments tm t))%R.
Proof.
  intros datas tm res B t Hd Hb Hq.
  destruct (built_tempo_wf _ _ _ _ Hb) as [Hwf Hres].
  pose proof (built_matches _ _ _ _ _ Hd Hb) as Hm.
  rewrite <- Hres in Hq.
  destruct (C01_query B tm t 0 Hwf Hm Hq) as (us & Hus & Hbound).
  - split; [lia|]. destruct Hq as (_ & _ & Ht & _).
    assert (Hg : 0 <= gov (evs B) t).
    { destruct Hwf as (_ & (e0 & rest & He & Ht0 & _) & _). unfold gov. rewrite He. cbn [filter].
      replace (b_tick e0 <=? t) with true by lia. unfold Zlength_. cbn [length]. lia. }
    exact Hg.
  - exists us. rewrite <- Hres. auto.
Qed.

(** Non-vacuity (integers/booleans only): a five-segment map with odd resolution, sub-1 and huge tempos;
    the executable twin of the bound holds at boundary ticks, boundary +- 1 and far past the end. *)
Definition ex_tm : list (Z * Z) := [(0, 120000); (7, 1118); (8, 999999999); (5000, 1); (5001, 20548)].
Definition ex_B : result bpm_events :=
  build_bpm_events (tbl cfg)
    [(0, esc "120000"%string); (7, esc "1118"%string); (8, esc "999999999"%string); (5000, esc "1"%string); (5001, esc "20548"%string)] 7.
Example C01_nonvacuous :
  match ex_B with
  | Ok B => forallb (fun t => match timestamp_at_tick B t 0 with
                              | Ok (us, idx) => within_slack 7 ex_tm t us && (idx =? segments ex_tm t - 1)
                              | Err _ => false end)
                    [0; 1; 6; 7; 8; 9; 4999; 5000; 5001; 5002; 100000] = true
  | Err _ => False
  end.
Proof. vm_compute. reflexivity. Qed.
