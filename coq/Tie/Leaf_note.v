(** Tie/Leaf_note.v — NoteEvent._compute_star_power_data (a for/break scan whose variable outlives the loop) and
    NoteEvent.from_parsed_data (the order in which a note event's parts are computed, and which hint and which
    cursor feed which query) as translated from the current source are the model's [compute_sp] and
    [note_from_group]. *)
From Coq Require Import ZArith List Lia ZifyBool.
From CP Require Import Base.Prelude Base.Cfg Base.Loops Base.Float64 Base.Timedelta Model.Sync Model.Instrument
  Gen.Leaf_tick Gen.Leaf_special Gen.Leaf_note.
Import ListNotations.
Open Scope Z_scope.

Lemma seq_get_app_here {A} (pre : list A) (e : A) (rest : list A) :
  seq_get (pre ++ e :: rest) (Zlength_ pre) = Ok e.
Proof.
  unfold seq_get, nth_Z, Zlength_.
  destruct (Z.of_nat (length pre) <? 0) eqn:H; [lia|].
  rewrite Nat2Z.id, nth_error_app2 by lia. rewrite Nat.sub_diag. reflexivity.
Qed.

Lemma for_break_scan (tick : Z) :
  forall (l pre : list special_event),
    l <> [] ->
    for_break_fuel (length l) (Zlength_ pre) (Zlength_ (pre ++ l))
      (fun j => let* x := seq_get (pre ++ l) j in Ok (negb (leaf_tick_is_after_event x tick)))
    = Ok (sp_scan l (Zlength_ pre) tick).
Proof.
  induction l as [|e rest IH]; intros pre Hne; [congruence|].
  cbn [length for_break_fuel sp_scan].
  rewrite seq_get_app_here. cbn [bind].
  change (leaf_tick_is_after_event e tick) with (tick_is_after e tick).
  destruct (negb (tick_is_after e tick)); [reflexivity|].
  destruct rest as [|e' rest'].
  - assert (H : (Zlength_ (pre ++ [e]) <=? Zlength_ pre + 1) = true).
    { unfold Zlength_. rewrite app_length. cbn [length]. lia. }
    rewrite H. reflexivity.
  - assert (H : (Zlength_ (pre ++ e :: e' :: rest') <=? Zlength_ pre + 1) = false).
    { unfold Zlength_. rewrite app_length. cbn [length]. lia. }
    rewrite H.
    specialize (IH (pre ++ [e])). rewrite <- app_assoc in IH. cbn [app] in IH.
    assert (Hl : Zlength_ (pre ++ [e]) = Zlength_ pre + 1).
    { unfold Zlength_. rewrite app_length. cbn [length]. lia. }
    rewrite Hl in IH. apply IH. discriminate.
Qed.

Lemma leaf_compute_sp_ok :
  forall tick sps i, 0 <= i -> leaf_compute_sp tick sps i = compute_sp sps tick i.
Proof.
  intros tick sps i Hi. unfold leaf_compute_sp, compute_sp.
  destruct sps as [|s0 sps'] eqn:Hs; [reflexivity|]. rewrite <- Hs.
  assert (Hlen : (Zlength_ sps =? 0) = false) by (subst sps; unfold Zlength_; cbn [length]; lia).
  rewrite Hlen.
  destruct (Zlength_ sps <=? i) eqn:Hle; [reflexivity|].
  destruct (i <? 0) eqn:Hneg; [lia|].
  unfold for_break. rewrite Hle.
  pose proof (firstn_skipn (Z.to_nat i) sps) as Hsplit.
  set (pre := firstn (Z.to_nat i) sps) in *. set (l := skipn (Z.to_nat i) sps) in *.
  assert (Hpre : Zlength_ pre = i).
  { unfold Zlength_, pre. rewrite firstn_length. unfold Zlength_ in Hle. lia. }
  assert (Hl : length l = Z.to_nat (Zlength_ sps - i)).
  { unfold l. rewrite skipn_length. unfold Zlength_. lia. }
  assert (Hne : l <> []).
  { intro E. rewrite E in Hl. cbn [length] in Hl. unfold Zlength_ in *. lia. }
  rewrite <- Hl. clearbody pre l. clear Hlen Hle Hl Hs. subst sps i.
  rewrite (for_break_scan tick l pre Hne). cbn [bind].
  unfold seq_get. destruct (nth_Z (pre ++ l) (sp_scan l (Zlength_ pre) tick)) as [cand|]; cbn [bind]; [|reflexivity].
  change (leaf_tick_is_during_event cand tick) with (tick_is_during cand tick).
  destruct (tick_is_during cand tick); reflexivity.
Qed.

Lemma leaf_note_from_parsed_data_ok :
  forall c B sps g prev hint cursor,
    leaf_note_from_parsed_data c g prev sps B hint cursor = note_from_group c B sps g prev hint cursor.
Proof.
  intros c B sps g prev hint cursor. unfold leaf_note_from_parsed_data, note_from_group.
  destruct g as [|d0 g']; [reflexivity|].
  change (seq_get (d0 :: g') 0) with (Ok d0). cbn [bind].
  destruct (complex_sustain (d0 :: g')) as [sus|e]; cbn [bind]; [|reflexivity].
  destruct (timestamp_at_tick B (nd_tick d0) hint) as [[ts idx]|e]; cbn [bind]; [|reflexivity].
  change (fun d : ndata => nd_idx d =? 6) with (fun d : ndata => nd_idx d =? IDX_TAP).
  change (fun d : ndata => nd_idx d =? 5) with (fun d : ndata => nd_idx d =? IDX_FORCED).
  destruct prev as [p|]; cbn [option_map];
    (match goal with |- context [compute_hopo ?a1 ?a2 ?a3 ?a4 ?a5 ?a6 ?a7] => destruct (compute_hopo a1 a2 a3 a4 a5 a6 a7) as [h|e] end;
     cbn [bind]; [|reflexivity];
     unfold compute_sp_py;
     destruct (compute_sp sps (nd_tick d0) cursor) as [[spd cur]|e]; cbn [bind]; [|reflexivity];
     destruct (longest_sustain sus) as [lg|e]; cbn [bind]; [|reflexivity];
     change (leaf_note_end_tick (nd_tick d0) lg) with (tick_add (nd_tick d0) lg);
     destruct (timestamp_at_tick B (tick_add (nd_tick d0) lg) idx) as [[ets j]|e]; cbn [bind]; reflexivity).
Qed.
