(** Tie/C12.v — C12 on the tables of the current source, and non-vacuity. *)
From CP Require Import Base.Prelude Base.Str Base.Regex Base.Cfg Base.Float64 Base.Timedelta
  Model.Lines Model.Sync Model.Obs Spec.C11 Spec.Tempo Spec.C12 Properties.C12 Gen.Src.
Open Scope Z_scope.

(** Non-vacuity (booleans/integers only): an extreme deceleration/acceleration with sub-microsecond
    ticks: 10^6 BPM at resolution 10^6, then 0.001 BPM, then 10^6 BPM again; consecutive ticks across
    both boundaries are non-decreasing. *)
Definition ex_B : result bpm_events :=
  build_bpm_events (tbl cfg)
    [(0, esc "1000000000"%string); (7, esc "1"%string); (9, esc "1000000000"%string)] 1000000.
Example C12_nonvacuous :
  match ex_B with
  | Ok B => mono_b false (flat_map (fun t => match ts_of B t with Ok u => [(t, u)] | Err _ => [] end)
                                   [0; 1; 2; 3; 4; 5; 6; 7; 8; 9; 10; 11; 12; 1000000; 1000001]) = true
            /\ forallb (fun t => is_ok (ts_of B t)) [0; 5; 7; 8; 9; 12; 1000001] = true
  | Err _ => False
  end.
Proof. vm_compute. split; reflexivity. Qed.
