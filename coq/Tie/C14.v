(** Tie/C14.v — obligations of C14 on the configuration regenerated from the current source. *)
From CP Require Import Base.Prelude Base.Str Base.Regex Base.Cfg Model.Lines Spec.RefRegex Spec.C14
  Properties.C14 Gen.Src.
Open Scope Z_scope.

Lemma instr_ok : cfg_ok_instr cfg = true.  Proof. vm_compute. reflexivity. Qed.
Lemma sync_ok : cfg_ok_sync cfg = true.    Proof. vm_compute. reflexivity. Qed.
Lemma events_ok : cfg_ok_events cfg = true. Proof. vm_compute. reflexivity. Qed.

(** Non-vacuity: a line every instrument kind rejects is reported once and skipped; the same section
    in two kind orders gives the same outcome. *)
Example C14_nonvacuous :
  let lines := map esc ["  0 = N 0 0"; "garbage"; "  0 = S 64 5"; "  10 = S 2 5"; "  10 = E solo"; "0 = N 8 0"]%string in
  result_map (fun o => (length (all_data o), warnings_of o)) (dispatch cfg (order_instr cfg) lines)
    = Ok (3%nat, map esc ["garbage"; "  0 = S 64 5"; "0 = N 8 0"]%string)
  /\ dispatch cfg [KTev; KSP; KNote] lines = dispatch cfg [KNote; KSP; KTev] lines.
Proof. vm_compute. split; reflexivity. Qed.
