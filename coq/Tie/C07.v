(** Tie/C07.v — the three instrument recognisers regenerated from the current source are the
    reference ones; closed corollaries and the named examples of the property text. *)
From CP Require Import Base.Prelude Base.Str Base.Regex Base.Cfg Model.Lines Spec.RefRegex Spec.C07
  Properties.C07 Gen.Src.
Open Scope Z_scope.

Lemma instr_ok : cfg_ok_instr cfg = true.
Proof. vm_compute. reflexivity. Qed.

Theorem C07_note_only_on_current_source :
  forall s, matchb (tbl cfg) (re_note cfg) s = true <-> exists t i l, note_shape cfg s t i l.
Proof. exact (C07_note_only cfg instr_ok). Qed.
Theorem C07_sp_only_on_current_source :
  forall s, matchb (tbl cfg) (re_sp cfg) s = true <-> exists t l, sp_shape cfg s t l.
Proof. exact (C07_sp_only cfg instr_ok). Qed.
Theorem C07_tev_only_on_current_source :
  forall s, matchb (tbl cfg) (re_tev cfg) s = true <-> exists t w, tev_shape cfg s t w.
Proof. exact (C07_tev_only cfg instr_ok). Qed.
Theorem C07_disjoint_on_current_source :
  forall s,
    ~ (matchb (tbl cfg) (re_note cfg) s = true /\ matchb (tbl cfg) (re_sp cfg) s = true) /\
    ~ (matchb (tbl cfg) (re_note cfg) s = true /\ matchb (tbl cfg) (re_tev cfg) s = true) /\
    ~ (matchb (tbl cfg) (re_sp cfg) s = true /\ matchb (tbl cfg) (re_tev cfg) s = true).
Proof. exact (C07_disjoint cfg instr_ok). Qed.

(** The examples named in the property text. *)
Example C07_examples :
  map (fun l => (is_ok (dec cfg KNote l), is_ok (dec cfg KSP l), is_ok (dec cfg KTev l)))
      (map esc ["  768 = N 3 0"; "768 = S 2 96"; "0 = E solo"; "0 = S 64 5"; "0 = N 8 0"; "0 = E two words"]%string)
  = [(true, false, false); (false, true, false); (false, false, true);
     (false, false, false); (false, false, false); (false, false, false)].
Proof. vm_compute. reflexivity. Qed.
