(** Tie/C06.v — the chart side condition on the configuration regenerated from the current source
    (header recogniser, 40 distinct section names, required sections, line-boundary table), and the
    closed corollaries. *)
From CP Require Import Base.Prelude Base.Str Base.Regex Base.Cfg Model.Lines Model.Chart
  Spec.RefRegex Spec.ChartSpec Spec.C06 Properties.C06 Gen.Src.
Open Scope Z_scope.

Lemma chart_ok : cfg_ok_chart cfg = true.
Proof. vm_compute. reflexivity. Qed.

Theorem C06_frame_on_current_source :
  forall secs, wf_secs secs -> partition cfg (lines_of secs) = Ok secs.
Proof. intros secs H. exact (C06_frame cfg secs chart_ok H). Qed.

Theorem C06_perm_on_current_source :
  forall secs secs' want, NoDup (map fst secs) -> Permutation.Permutation secs secs' ->
    parse_equiv (from_secs cfg secs want) (from_secs cfg secs' want).
Proof. intros secs secs' want H1 H2. exact (C06_perm cfg secs secs' want chart_ok H1 H2). Qed.

Theorem C06_split_on_current_source :
  forall lines nl, nl = NL_LF \/ nl = NL_CRLF -> Forall (no_breaks (tbl cfg)) lines ->
    splitlines (tbl cfg) (join nl lines) = lines.
Proof. intros lines nl Hnl Hl. apply C06_split; auto; vm_compute; reflexivity. Qed.

(** All 40 headers route to their own (instrument, difficulty) key. *)
Example C06_all_40_headers :
  forallb (fun i => forallb (fun d => match header_lookup cfg (d ++ i) with
                                      | Some (i', d') => str_eqb i i' && str_eqb d d'
                                      | None => false end) (diff_values cfg)) (instr_values cfg) = true
  /\ length (header_pairs cfg) = 40%nat.
Proof. vm_compute. split; reflexivity. Qed.

(** Non-vacuity: a two-section file framed exactly, with a body line that looks like a header. *)
Example C06_nonvacuous :
  partition cfg (map esc ["[Song]"; "{"; "  Resolution = 192"; "[Events]"; "}"; "[x y]"; "{"; "}"]%string)
  = Ok [(esc "Song"%string, map esc ["  Resolution = 192"; "[Events]"]%string); (esc "x y"%string, [])].
Proof. vm_compute. reflexivity. Qed.

(** Byte level: on the current configuration, a UTF-8 file with or without a byte-order mark, LF or CRLF, read by
    path, is parsed as the LF text. *)
From CP Require Import Base.Utf8 Model.ChartBytes Spec.Utf8Spec Proofs.Utf8Examples.
Theorem C06_bom_bytes_on_current_source :
  forall lines want (bom : bool) nl, nl = NL_LF \/ nl = NL_CRLF ->
    Forall (Forall (fun ch => ch <> CR /\ ch <> LF)) lines ->
    (match lines with (ch :: _) :: _ => ch <> BOM | _ => True end) ->
    forallb scalar (concat lines) = true ->
    from_filepath_bytes cfg ((if bom then UTF8_BOM else []) ++ utf8_encode (join nl lines)) want
    = from_file cfg (join NL_LF lines) want.
Proof. intros. apply C06_bom_bytes; assumption. Qed.

Example C06_bytes_nonvacuous :
  utf8_sig_decode (UTF8_BOM ++ utf8_encode (esc "[Song]"%string ++ [233; 8364; 128512]%N))
  = Ok (esc "[Song]"%string ++ [233; 8364; 128512]%N).
Proof. vm_compute. reflexivity. Qed.

(** The section names themselves: the ten instrument values and four difficulty values of the current source are the documented
    Moonscraper names (as sets; the order of the enum members is immaterial). *)
Definition same_names (a b : list str) : bool :=
  forallb (fun x => mem_str x b) a && forallb (fun x => mem_str x a) b.
Example C06_header_names :
  same_names (instr_values cfg) (map esc ["Single"; "DoubleGuitar"; "DoubleBass"; "DoubleRhythm"; "Drums"; "Keyboard";
                                           "GHLGuitar"; "GHLBass"; "GHLRhythm"; "GHLCoop"]%string) = true
  /\ same_names (diff_values cfg) (map esc ["Easy"; "Medium"; "Hard"; "Expert"]%string) = true.
Proof. vm_compute. split; reflexivity. Qed.
