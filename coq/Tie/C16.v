(** Tie/C16.v — C16 on the configuration regenerated from the current source, and non-vacuity. *)
From CP Require Import Base.Prelude Base.Str Base.Regex Base.Cfg Base.Float64 Base.Timedelta
  Model.Lines Model.Sync Model.Instrument Model.Chart Model.Obs Spec.C16 Properties.C16 Gen.Src.
Open Scope Z_scope.

Definition ex_text : str :=
  esc "[Song]\10;{\10;Resolution = 192\10;}\10;[SyncTrack]\10;{\10;0 = TS 4\10;0 = B 120000\10;384 = B 60000\10;}\10;[Events]\10;{\10;}\10;[ExpertSingle]\10;{\10;0 = N 0 0\10;192 = N 1 0\10;384 = N 2 96\10;768 = N 3 0\10;}\10;"%string.
Definition G : str := esc "Single"%string.
Definition X : str := esc "Expert"%string.

(** Closed interval at both ends, tick bounds = time bounds, omitted bounds, errors (computed on
    booleans and integers only: the floats are compared with [f_same], never printed). *)
Example C16_nonvacuous :
  match from_file cfg ex_text None with
  | Ok (ch, _) =>
      let nps := notes_per_second ch G X in
      float_result_eqb (nps (BTick 192) (BTick 384)) (nps (BTime 500000) (BTime 1000000))
      && float_result_eqb (nps (BTick 192) (BTick 384)) (Ok (fdiv (of_Z 2) (fdiv (of_Z 500000) (of_Z 1000000))))
      && float_result_eqb (nps BNone BNone) (Ok (fdiv (of_Z 4) (fdiv (of_Z 3000000) (of_Z 1000000))))
      && float_result_eqb (nps (BTick 384) (BTick 384)) (Err EValue)
      && float_result_eqb (nps (BTick 384) (BTick 192)) (Err EValue)
      && float_result_eqb (nps (BTick (-1)) BNone) (Err EValue)
      && float_result_eqb (notes_per_second ch (esc "DoubleBass"%string) X BNone BNone) (Err EValue)
      && forallb (fun k => Spec.C16.spec_b ch G X (fst k) (snd k) (nps (fst k) (snd k)))
                 [(BNone, BNone); (BTick 0, BTick 768); (BTick 193, BNone); (BTime 0, BTime 1); (BTime 3000000, BTime 4000000)]
  | Err _ => false
  end = true.
Proof. vm_compute. reflexivity. Qed.
