(** Tie/C19.v — the mapping [from_file] stores on the current source does not auto-insert (probe parse
    by tools/extract.py), so C19_immutable applies to every chart the current source returns. *)
From CP Require Import Base.Prelude Base.Str Base.Regex Base.Cfg Model.Chart Model.ChartState Spec.C19
  Properties.C19 Gen.Src.
Open Scope Z_scope.

Lemma plain_mapping : cfg_ok_C19 cfg = true.
Proof. vm_compute. reflexivity. Qed.

Theorem C19_on_current_source :
  forall ops st, obs (fst (run (autoinsert_tracks cfg) st ops)) = obs st.
Proof.
  intros ops st. assert (H : autoinsert_tracks cfg = false) by (vm_compute; reflexivity).
  rewrite H. apply C19_immutable.
Qed.
