(** Tie/C03.v — obligations of C03 on the configuration regenerated from the current source. *)
From CP Require Import Base.Prelude Base.Str Base.Regex Base.Cfg Base.Float64 Base.Timedelta
  Model.Lines Model.Sync Model.Instrument Model.Obs Spec.RefRegex Spec.C03 Properties.C03 Gen.Src.
Open Scope Z_scope.

Example C03_nonvacuous :
  let g := map (fun p => {| nd_tick := 5; nd_idx := fst p; nd_sus := snd p |}) [(6, 99); (0, 10); (4, 30); (2, 10)] in
  complex_sustain g = Ok (STuple [Some 10; None; Some 10; None; Some 30]) /\
  longest_sustain (STuple [Some 10; None; Some 10; None; Some 30]) = Ok 30.
Proof. vm_compute. split; reflexivity. Qed.

Example C03_open_after_flag :
  complex_sustain (map (fun p => {| nd_tick := 100; nd_idx := fst p; nd_sus := snd p |}) [(5, 0); (7, 50)])
  = Ok (SInt 50).
Proof. vm_compute. reflexivity. Qed.
