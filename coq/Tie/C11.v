(** Tie/C11.v — C11 instantiated on the current source's configuration, and non-vacuity. *)
From CP Require Import Base.Prelude Base.Str Base.Regex Base.Cfg Base.Float64 Base.Timedelta
  Model.Lines Model.Sync Model.Instrument Model.Obs Spec.C11 Properties.C11 Gen.Src.
Open Scope Z_scope.

(** Every tempo list built from the current source's tables is well formed, so the hint theorems
    apply to every successfully parsed chart. *)
Theorem C11_on_current_source :
  forall datas R B, build_bpm_events (tbl cfg) datas R = Ok B ->
    wf_bpm B /\
    (forall t h, 0 <= h -> h <= gov (evs B) t -> timestamp_at_tick B t h = timestamp_at_tick B t 0) /\
    (forall t h, gov (evs B) t < h -> timestamp_at_tick B t h = Err EValue).
Proof.
  intros datas R B H. destruct (C11_built_wf _ _ _ _ H) as [Hwf HR]. split; [exact Hwf|].
  destruct Hwf as [Hs (e0 & rest & He & _)].
  assert (Hne : evs B <> []) by (rewrite He; discriminate).
  split; intros t h; intros; [apply C11_ts | apply C11_ts_reject]; auto.
Qed.

(** Non-vacuity: a four-segment tempo map; every hint at a tick in the third segment. *)
Definition ex_B : result bpm_events :=
  build_bpm_events (tbl cfg)
    [(0, esc "120000"%string); (100, esc "60500"%string); (101, esc "1"%string); (5000, esc "999999"%string)] 192.
Example C11_nonvacuous :
  match ex_B with
  | Ok B =>
      gov (evs B) 4999 = 2 /\
      map (fun h => result_map snd (timestamp_at_tick B 4999 h)) [0; 1; 2; 3; 4]
      = [Ok 2; Ok 2; Ok 2; Err EValue; Err EValue]
  | Err _ => False
  end.
Proof. vm_compute. split; reflexivity. Qed.
