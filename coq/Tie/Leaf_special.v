(** Tie/Leaf_special.v — SpecialEvent.end_tick / tick_is_after_event / tick_is_during_event,
    NoteEvent._end_tick, Note.is_chord and NoteTrackIndex.is_5_note as translated from the current source
    are the model's definitions. *)
From CP Require Import Base.Prelude Base.Float64 Model.Sync Model.Instrument Gen.Leaf_tick Gen.Leaf_special.
Open Scope Z_scope.

Lemma leaf_sp_end_tick_ok : forall e, leaf_sp_end_tick e = sp_end e.                       Proof. reflexivity. Qed.
Lemma leaf_tick_is_after_event_ok : forall e t, leaf_tick_is_after_event e t = tick_is_after e t.   Proof. reflexivity. Qed.
Lemma leaf_tick_is_during_event_ok : forall e t, leaf_tick_is_during_event e t = tick_is_during e t. Proof. reflexivity. Qed.
Lemma leaf_note_end_tick_ok : forall t s, leaf_note_end_tick t s = tick_add t s.            Proof. reflexivity. Qed.
Lemma leaf_is_chord_ok : forall n, leaf_is_chord n = is_chord n.                            Proof. reflexivity. Qed.
Lemma leaf_is_5_note_ok : forall i, leaf_is_5_note i = is_5_note i.                         Proof. reflexivity. Qed.
