(** Tie/Leaf_timed.v — the construction of every tempo-map-needing event (global events, track events, star-power
    phrases, time signatures) and the accumulation loop data_to_events of track.build_events_from_data, as
    translated from the current source, are the model's [timed_from] / [build_timed]: each event is timed by a
    query that starts at the previous event's stored index. *)
From Coq Require Import ZArith List Lia.
From CP Require Import Base.Prelude Base.Str Base.Cfg Base.Loops Base.Float64 Base.Timedelta Model.Sync Gen.Leaf_timed.
Import ListNotations.
Open Scope Z_scope.

Lemma leaf_global_from_parsed_data_ok :
  forall tick v prev B, leaf_global_from_parsed_data tick v prev B = let* tm := timed_from B tick prev in Ok (tm, v).
Proof.
  intros tick v prev B. unfold leaf_global_from_parsed_data, timed_from.
  destruct (timestamp_at_tick B tick _) as [[ts idx]|e]; reflexivity.
Qed.

Lemma leaf_track_event_from_parsed_data_ok :
  forall tick v prev B, leaf_track_event_from_parsed_data tick v prev B = let* tm := timed_from B tick prev in Ok (tm, v).
Proof.
  intros tick v prev B. unfold leaf_track_event_from_parsed_data, timed_from.
  destruct (timestamp_at_tick B tick _) as [[ts idx]|e]; reflexivity.
Qed.

Lemma leaf_special_from_parsed_data_ok :
  forall tick v prev B, leaf_special_from_parsed_data tick v prev B = let* tm := timed_from B tick prev in Ok (tm, v).
Proof.
  intros tick v prev B. unfold leaf_special_from_parsed_data, timed_from.
  destruct (timestamp_at_tick B tick _) as [[ts idx]|e]; reflexivity.
Qed.

Lemma leaf_ts_from_parsed_data_ok :
  forall dflt tick up lo prev B,
    leaf_ts_from_parsed_data dflt tick up lo prev B
    = let* tm := timed_from B tick prev in
      Ok {| ts_at := tm; ts_upper := up; ts_lower := match lo with Some l => 2 ^ l | None => dflt end |}.
Proof.
  intros dflt tick up lo prev B. unfold leaf_ts_from_parsed_data, timed_from.
  destruct (timestamp_at_tick B tick _) as [[ts idx]|e]; reflexivity.
Qed.

(** The accumulation loop: with a constructor that times its event from the previous one's timed part, the loop is
    [build_timed] over the ticks, the payloads being carried along unchanged. *)
Lemma leaf_data_to_events_ok {A P : Type} (tk : A -> Z) (pl : A -> P)
      (from_pd : A -> option (timed * P) -> bpm_events -> result (timed * P)) (B : bpm_events) :
  (forall d prev, from_pd d prev B = let* tm := timed_from B (tk d) (option_map fst prev) in Ok (tm, pl d)) ->
  forall datas,
    leaf_data_to_events A (timed * P) from_pd datas B
    = let* tms := build_timed B (map tk datas) None in Ok (combine tms (map pl datas)).
Proof.
  intros Hf datas. unfold leaf_data_to_events, fold_prev.
  assert (G : forall datas prev,
             fold_prev_aux (fun d p => from_pd d p B) datas prev
             = let* tms := build_timed B (map tk datas) (option_map fst prev) in Ok (combine tms (map pl datas))).
  { induction datas0 as [|d ds IH]; intro prev; [reflexivity|].
    cbn [fold_prev_aux map build_timed]. rewrite Hf.
    destruct (timed_from B (tk d) (option_map fst prev)) as [tm|e]; cbn [bind]; [|reflexivity].
    rewrite IH. cbn [option_map fst].
    destruct (build_timed B (map tk ds) (Some tm)) as [tms|e]; cbn [bind combine]; reflexivity. }
  rewrite G. cbn [option_map].
  destruct (build_timed B (map tk datas) None) as [tms|e]; reflexivity.
Qed.

(** Instances: the four event kinds. *)
Corollary leaf_global_events_ok (B : bpm_events) (datas : list (Z * str)) :
  leaf_data_to_events _ _ (fun d prev B => leaf_global_from_parsed_data (fst d) (snd d) (option_map fst prev) B) datas B
  = let* tms := build_timed B (map fst datas) None in Ok (combine tms (map snd datas)).
Proof. apply (leaf_data_to_events_ok fst snd). intros d prev. apply leaf_global_from_parsed_data_ok. Qed.

Corollary leaf_special_events_ok (B : bpm_events) (datas : list (Z * Z)) :
  leaf_data_to_events _ _ (fun d prev B => leaf_special_from_parsed_data (fst d) (snd d) (option_map fst prev) B) datas B
  = let* tms := build_timed B (map fst datas) None in Ok (combine tms (map snd datas)).
Proof. apply (leaf_data_to_events_ok fst snd). intros d prev. apply leaf_special_from_parsed_data_ok. Qed.
