(** Tie/C13.v — C13 on the configuration regenerated from the current source. *)
From CP Require Import Base.Prelude Base.Str Base.Regex Base.Cfg Model.Lines Model.Chart
  Spec.ChartSpec Spec.C13 Properties.C13 Gen.Src.
Open Scope Z_scope.

Lemma chart_ok : cfg_ok_chart cfg = true.
Proof. vm_compute. reflexivity. Qed.

Theorem C13_select_on_current_source :
  forall secs ch logs sel, NoDup (map fst secs) -> from_secs cfg secs None = Ok (ch, logs) ->
    exists ch' logs', from_secs cfg secs (Some sel) = Ok (ch', logs') /\
      c_meta ch' = c_meta ch /\ c_sync ch' = c_sync ch /\ c_gev ch' = c_gev ch /\
      (forall i d, lookup_tracks (c_tracks ch') i d =
                   if wanted (Some sel) (i, d) then lookup_tracks (c_tracks ch) i d else None) /\
      (forall i inner, assoc i (c_tracks ch') = Some inner -> inner <> []).
Proof. intros secs ch logs sel H1 H2. exact (C13_select cfg secs ch logs sel chart_ok H1 H2). Qed.

Theorem C13_unselected_on_current_source :
  forall s1 tag body body' s2 want p, header_lookup cfg tag = Some p -> wanted want p = false ->
    from_secs cfg (s1 ++ (tag, body) :: s2) want = from_secs cfg (s1 ++ (tag, body') :: s2) want.
Proof. intros s1 tag body body' s2 want p H1 H2. exact (C13_unselected_partial cfg s1 tag body body' s2 want p chart_ok H1 H2). Qed.
