(** Tie/Leaf_meta.v — [Metadata.from_chart_lines] as translated from the current source (one [_set_kwarg] / [_maybe_set_kwarg]
    call per field, in source order, then the dataclass constructor on the kwargs dict) is the model's [meta_parse], given
    that the field names of the configuration are pairwise distinct and that the calls of the translation are the fields of
    the configuration with their required flags (both checked on the regenerated configuration by computation). *)
From Coq Require Import ZArith List Lia.
From CP Require Import Base.Prelude Base.Str Base.Regex Base.Cfg Base.Loops Model.Lines Model.Chart Gen.Leaf_meta.
Import ListNotations.
Open Scope Z_scope.

Lemma str_eqb_refl : forall k, str_eqb k k = true.
Proof. intro k. apply str_eqb_eq. reflexivity. Qed.
Lemma str_eqb_neq : forall k k', k <> k' -> str_eqb k k' = false.
Proof. intros k k' H. destruct (str_eqb k k') eqn:E; [|reflexivity]. apply str_eqb_eq in E. contradiction. Qed.

Lemma assoc_kw_set_same : forall kw k v, assoc k (kw_set kw k v) = Some v.
Proof.
  induction kw as [|[k0 v0] kw IH]; intros k v; cbn [kw_set assoc].
  - rewrite str_eqb_refl. reflexivity.
  - destruct (str_eqb k k0) eqn:E; cbn [assoc]; rewrite E; [reflexivity|apply IH].
Qed.
Lemma assoc_kw_set_other : forall kw k k' v, k <> k' -> assoc k (kw_set kw k' v) = assoc k kw.
Proof.
  induction kw as [|[k0 v0] kw IH]; intros k k' v Hne; cbn [kw_set assoc].
  - rewrite (str_eqb_neq _ _ Hne). reflexivity.
  - destruct (str_eqb k' k0) eqn:E; cbn [assoc].
    + apply str_eqb_eq in E. subst k0. rewrite (str_eqb_neq _ _ Hne). reflexivity.
    + destruct (str_eqb k k0); [reflexivity|]. apply IH. exact Hne.
Qed.

(** the calls of the translation, as data *)
Definition calls_of (fs : list meta_field) : list (str * bool) := map (fun f => (mf_name f, mf_required f)) fs.
Fixpoint run_calls (c : cfg) (lines : list str) (cs : list (str * bool)) (kw : kwargs_t) : result kwargs_t :=
  match cs with
  | [] => Ok kw
  | (k, req) :: cs' =>
      let* kw' := (if req then leaf_set_kwarg c lines kw k None else leaf_maybe_set_kwarg c lines kw k None) in
      run_calls c lines cs' kw'
  end.
(** the same in continuation form, which is the shape of the translated function (nested binds ending in the constructor) *)
Fixpoint run_then {B} (c : cfg) (lines : list str) (cs : list (str * bool)) (kw : kwargs_t) (k : kwargs_t -> result B) : result B :=
  match cs with
  | [] => k kw
  | (n, req) :: cs' =>
      let* kw' := (if req then leaf_set_kwarg c lines kw n None else leaf_maybe_set_kwarg c lines kw n None) in
      run_then c lines cs' kw' k
  end.
Lemma run_then_bind : forall B c lines cs kw (k : kwargs_t -> result B),
  run_then c lines cs kw k = (let* kw' := run_calls c lines cs kw in k kw').
Proof.
  intros B c lines cs. induction cs as [|[n req] cs IH]; intros kw k; cbn [run_then run_calls bind]; [reflexivity|].
  destruct (if req then leaf_set_kwarg c lines kw n None else leaf_maybe_set_kwarg c lines kw n None); cbn [bind]; [apply IH|reflexivity].
Qed.
Definition mk_one (kw : kwargs_t) (f : meta_field) : result (str * meta_val) :=
  match assoc (mf_name f) kw with
  | Some v => Ok (mf_name f, v)
  | None => if mf_required f then Err EType else Ok (mf_name f, mf_default f)
  end.

Section Generic.
Variable c : cfg.
Variable lines : list str.

Lemma meta_process_not_rnm : forall f v, meta_process c f v <> Err ERegexNotMatch.
Proof.
  intros f v. unfold meta_process, py_int. destruct (mf_kind f).
  - destruct (Nat.ltb max_str_digits (length v)); cbn [bind]; discriminate.
  - discriminate.
  - destruct (existsb (str_eqb v) (player2_values c)); discriminate.
Qed.

Lemma for_return_find : forall (B : Type) f (K : str -> result B) after ls,
  for_return (fun line => match rx_match c f line with Some m => Some (K m) | None => None end) ls after
  = match meta_find c f ls with Some l => K l | None => after end.
Proof.
  intros B f K after ls. induction ls as [|l ls IH]; cbn [for_return meta_find]; [reflexivity|].
  unfold rx_match at 1. destruct (matchb (tbl c) (mf_re f) l); [reflexivity|apply IH].
Qed.

Lemma parse_all_lines_spec : forall f, specs_get c (mf_name f) = Ok f ->
  leaf_parse_all_lines_for_field c lines (mf_name f)
  = match meta_find c f lines with
    | Some l => match meta_capture c f l with Some v => meta_process c f v | None => Err EUnmodelled end
    | None => Err ERegexNotMatch
    end.
Proof.
  intros f H. unfold leaf_parse_all_lines_for_field. rewrite H. cbn [bind].
  rewrite (for_return_find _ f (fun m => let* t3_ := rx_group1 c f m in let* t4_ := meta_process c f t3_ in Ok t4_)).
  destruct (meta_find c f lines) as [l|]; [|reflexivity].
  unfold rx_group1. destruct (meta_capture c f l) as [v|]; cbn [bind]; [|reflexivity].
  destruct (meta_process c f v); reflexivity.
Qed.

Lemma call_spec : forall f kw, specs_get c (mf_name f) = Ok f ->
  (if mf_required f then leaf_set_kwarg c lines kw (mf_name f) None else leaf_maybe_set_kwarg c lines kw (mf_name f) None)
  = match meta_find c f lines with
    | Some l => match meta_capture c f l with
                | Some v => let* x := meta_process c f v in Ok (kw_set kw (mf_name f) x)
                | None => Err EUnmodelled
                end
    | None => if mf_required f then Err EMissingRequiredField else Ok kw
    end.
Proof.
  intros f kw H. unfold leaf_set_kwarg, leaf_maybe_set_kwarg. rewrite (parse_all_lines_spec f H).
  destruct (meta_find c f lines) as [l|].
  - destruct (meta_capture c f l) as [v|]; [|destruct (mf_required f); reflexivity].
    pose proof (meta_process_not_rnm f v) as Hn.
    destruct (meta_process c f v) as [x|e]; cbn [bind]; [destruct (mf_required f); reflexivity|].
    destruct e; try (destruct (mf_required f); reflexivity). exfalso. apply Hn. reflexivity.
  - destruct (mf_required f); reflexivity.
Qed.

Lemma maybe_set_kwarg_shape : forall kw k cb kw1,
  leaf_maybe_set_kwarg c lines kw k cb = Ok kw1 -> kw1 = kw \/ exists x, kw1 = kw_set kw k x.
Proof.
  intros kw k cb kw1. unfold leaf_maybe_set_kwarg.
  destruct (leaf_parse_all_lines_for_field c lines k) as [v|e].
  - intro H. right. exists v. congruence.
  - destruct e; try discriminate. destruct cb as [g|].
    + destruct (g tt); cbn [bind]; [|discriminate]. intro H. left. congruence.
    + intro H. left. congruence.
Qed.

Lemma run_calls_preserves : forall fs kw kw' k,
  run_calls c lines (calls_of fs) kw = Ok kw' -> ~ In k (map mf_name fs) -> assoc k kw' = assoc k kw.
Proof.
  induction fs as [|f fs IH]; intros kw kw' k H Hn.
  - cbn in H. congruence.
  - change (calls_of (f :: fs)) with ((mf_name f, mf_required f) :: calls_of fs) in H. cbn [run_calls] in H.
    apply bind_ok in H. destruct H as [kw1 [H1 H2]].
    cbn [map In] in Hn.
    rewrite (IH _ _ _ H2) by tauto.
    assert (S : kw1 = kw \/ exists x, kw1 = kw_set kw (mf_name f) x).
    { destruct (mf_required f); [unfold leaf_set_kwarg in H1|]; eapply maybe_set_kwarg_shape; exact H1. }
    destruct S as [->|[x ->]]; [reflexivity|]. apply assoc_kw_set_other. intro E. apply Hn. left. congruence.
Qed.

Lemma run_calls_ok : forall fs kw,
  NoDup (map mf_name fs) ->
  (forall f, In f fs -> specs_get c (mf_name f) = Ok f) ->
  (forall f, In f fs -> assoc (mf_name f) kw = None) ->
  (let* kw' := run_calls c lines (calls_of fs) kw in mapM (mk_one kw') fs) = meta_parse_fields c fs lines.
Proof.
  induction fs as [|f fs IH]; intros kw Hnd Hsp Hkw; [reflexivity|].
  change (calls_of (f :: fs)) with ((mf_name f, mf_required f) :: calls_of fs). cbn [run_calls meta_parse_fields].
  rewrite call_spec by (apply Hsp; left; reflexivity).
  cbn [map] in Hnd. inversion Hnd as [|? ? Hnotin Hnd']; subst.
  assert (Hsp' : forall f0, In f0 fs -> specs_get c (mf_name f0) = Ok f0) by (intros; apply Hsp; right; assumption).
  unfold meta_field_value.
  destruct (meta_find c f lines) as [l|].
  - destruct (meta_capture c f l) as [v|]; [|reflexivity].
    destruct (meta_process c f v) as [x|e]; cbn [bind]; [|reflexivity].
    assert (Hkw' : forall f0, In f0 fs -> assoc (mf_name f0) (kw_set kw (mf_name f) x) = None).
    { intros f0 Hin. rewrite assoc_kw_set_other; [apply Hkw; right; assumption|].
      intro E. apply Hnotin. rewrite <- E. apply in_map. assumption. }
    specialize (IH (kw_set kw (mf_name f) x) Hnd' Hsp' Hkw').
    destruct (run_calls c lines (calls_of fs) (kw_set kw (mf_name f) x)) as [kw'|e] eqn:E; cbn [bind] in *.
    + cbn [mapM]. unfold mk_one at 1. rewrite (run_calls_preserves _ _ _ _ E Hnotin), assoc_kw_set_same. cbn [bind].
      rewrite IH. reflexivity.
    + rewrite <- IH. reflexivity.
  - destruct (mf_required f) eqn:R; cbn [bind]; [reflexivity|].
    assert (Hkw' : forall f0, In f0 fs -> assoc (mf_name f0) kw = None) by (intros; apply Hkw; right; assumption).
    specialize (IH kw Hnd' Hsp' Hkw').
    destruct (run_calls c lines (calls_of fs) kw) as [kw'|e] eqn:E; cbn [bind] in *.
    + cbn [mapM]. unfold mk_one at 1. rewrite (run_calls_preserves _ _ _ _ E Hnotin), (Hkw f (or_introl eq_refl)), R. cbn [bind].
      rewrite IH. reflexivity.
    + rewrite <- IH. reflexivity.
Qed.

Lemma find_nodup : forall (fs : list meta_field) f, NoDup (map mf_name fs) -> In f fs ->
  find (fun f' => str_eqb (mf_name f) (mf_name f')) fs = Some f.
Proof.
  induction fs as [|g fs IH]; intros f Hnd Hin; [contradiction|].
  cbn [map] in Hnd. inversion Hnd as [|? ? Hnotin Hnd']; subst. cbn [find].
  destruct Hin as [->|Hin]; [rewrite str_eqb_refl; reflexivity|].
  destruct (str_eqb (mf_name f) (mf_name g)) eqn:E.
  - apply str_eqb_eq in E. exfalso. apply Hnotin. rewrite <- E. apply in_map. assumption.
  - apply IH; assumption.
Qed.

(** the generic statement: the calls, run in order from the empty dict, then the constructor, are the model *)
Theorem leaf_meta_calls_ok :
  NoDup (map mf_name (meta_fields c)) ->
  (let* kw := run_calls c lines (calls_of (meta_fields c)) [] in mk_metadata c kw) = meta_parse c lines.
Proof.
  intro Hnd. unfold meta_parse. rewrite <- (run_calls_ok (meta_fields c) [] Hnd).
  - reflexivity.
  - intros f Hin. unfold specs_get. rewrite (find_nodup _ _ Hnd Hin). reflexivity.
  - intros; reflexivity.
Qed.
End Generic.
Print Assumptions leaf_meta_calls_ok.

(** a decidable check of distinctness *)
Fixpoint nodupb (l : list str) : bool :=
  match l with [] => true | x :: xs => negb (existsb (str_eqb x) xs) && nodupb xs end.
Lemma nodupb_sound : forall l, nodupb l = true -> NoDup l.
Proof.
  induction l as [|x xs IH]; intro H; [constructor|]. cbn [nodupb] in H.
  apply andb_true_iff in H. destruct H as [H1 H2]. constructor; [|apply IH; exact H2].
  intro Hin. apply negb_true_iff in H1.
  assert (T : existsb (str_eqb x) xs = true) by (apply existsb_exists; exists x; split; [exact Hin|apply str_eqb_refl]).
  congruence.
Qed.

(** On the configuration regenerated from the current source: the field names are distinct, and the translated function is
    literally the calls of the configured fields (names and required flags, in order) followed by the constructor. *)
From CP Require Import Gen.Src.

Lemma meta_names_nodup : NoDup (map mf_name (meta_fields cfg)).
Proof. apply nodupb_sound. vm_compute. reflexivity. Qed.

Lemma leaf_meta_is_run_calls : forall lines,
  leaf_meta_from_chart_lines cfg lines
  = (let* kw := run_calls cfg lines (calls_of (meta_fields cfg)) [] in mk_metadata cfg kw).
Proof.
  intro lines. rewrite <- run_then_bind. unfold leaf_meta_from_chart_lines.
  let cs := eval vm_compute in (calls_of (meta_fields cfg)) in
  assert (E : calls_of (meta_fields cfg) = cs) by (vm_compute; reflexivity); rewrite E.
  reflexivity.
Qed.

Theorem leaf_meta_from_chart_lines_on_current_source : forall lines,
  leaf_meta_from_chart_lines cfg lines = meta_parse cfg lines.
Proof.
  intro lines. rewrite leaf_meta_is_run_calls. apply leaf_meta_calls_ok. apply meta_names_nodup.
Qed.
Print Assumptions leaf_meta_from_chart_lines_on_current_source.

(** The property's theorems about whole [Song] bodies, stated of the function as translated from the current source. *)
From Coq Require Import Permutation.
From CP Require Import Spec.RefRegex Spec.C07 Spec.C10 Properties.C10.
Lemma C10_ok_now : cfg_ok_C10 cfg = true.
Proof. vm_compute. reflexivity. Qed.

Corollary C10_required_on_translated_source : forall lines,
  (forall f, In f (meta_fields cfg) -> mf_pascal f = of_string "Resolution" -> find (accepts cfg f) lines = None) ->
  leaf_meta_from_chart_lines cfg lines = Err EMissingRequiredField.
Proof. intros lines H. rewrite leaf_meta_from_chart_lines_on_current_source. exact (C10_required cfg C10_ok_now lines H). Qed.

Corollary C10_perm_on_translated_source : forall lines lines',
  one_line_per_field cfg lines -> Permutation lines lines' ->
  leaf_meta_from_chart_lines cfg lines = leaf_meta_from_chart_lines cfg lines'.
Proof. intros lines lines' H P. rewrite !leaf_meta_from_chart_lines_on_current_source. exact (C10_perm cfg lines lines' H P). Qed.

Corollary C10_defaults_on_translated_source : forall lines m,
  leaf_meta_from_chart_lines cfg lines = Ok m ->
  forall n p k r dv, In (n, p, k, r, dv) doc_table -> r = false ->
    (forall f, In f (meta_fields cfg) -> mf_pascal f = of_string p -> find (accepts cfg f) lines = None) ->
    assoc (of_string n) m = Some dv.
Proof. intros lines m H. rewrite leaf_meta_from_chart_lines_on_current_source in H. exact (C10_defaults cfg C10_ok_now lines m H). Qed.

Corollary C10_shape_on_translated_source : forall lines m,
  leaf_meta_from_chart_lines cfg lines = Ok m ->
  map fst m = map (fun d => of_string (fst (fst (fst (fst d))))) doc_table.
Proof. intros lines m H. rewrite leaf_meta_from_chart_lines_on_current_source in H. exact (C10_shape cfg C10_ok_now lines m H). Qed.
Print Assumptions C10_perm_on_translated_source.
