(** Tie/C08.v — the sync recognisers regenerated from the current source are the reference ones. *)
From CP Require Import Base.Prelude Base.Str Base.Regex Base.Cfg Base.Float64 Model.Lines Model.Sync
  Spec.RefRegex Spec.C07 Spec.C08 Spec.FloatSpec Properties.C08 Gen.Src.
Open Scope Z_scope.

Lemma sync_ok : cfg_ok_sync cfg = true.
Proof. vm_compute. reflexivity. Qed.

Theorem C08_bpm_only_on_current_source :
  forall s, matchb (tbl cfg) (re_bpm cfg) s = true <-> exists t n, bpm_shape cfg s t n.
Proof. exact (C08_bpm_only cfg sync_ok). Qed.
Theorem C08_ts_only_on_current_source :
  forall s, matchb (tbl cfg) (re_ts cfg) s = true <-> exists t u l, ts_shape cfg s t u l.
Proof. exact (C08_ts_only cfg sync_ok). Qed.
Theorem C08_anchor_only_on_current_source :
  forall s, matchb (tbl cfg) (re_anchor cfg) s = true <-> exists t u, anchor_shape cfg s t u.
Proof. exact (C08_anchor_only cfg sync_ok). Qed.

(** Every positive numeral below 2^52 written after B decodes, through the current source's tables, to
    the double nearest to n/1000 and is accepted by the three-decimal validator. *)
Theorem C08_bpm_on_current_source :
  forall raw n tick R, py_int (tbl cfg) raw = Ok n -> 1 <= n < 2 ^ 52 ->
    bpm_from_data (tbl cfg) tick raw None R
    = Ok {| b_tick := tick; b_ts := 0; b_bpm := bpm_of_n n; b_idx := 0 |}.
Proof. exact (C08_bpm_first cfg). Qed.

(** The witnesses of the defect repaired by fix 028903f decode now (computed on booleans only). *)
Example C08_witnesses_now_accepted :
  forallb (fun raw => is_ok (bpm_from_data (tbl cfg) 0 (esc raw) None 192))
          ["1118"; "20548"; "1"; "50"; "007"; "120000"; "4503599627370495"]%string = true.
Proof. vm_compute. reflexivity. Qed.
