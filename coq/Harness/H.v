(** Harness/H.v — what the correspondence shards evaluate: for every property, the verdict
    "model = implementation" on one case and the executable specification judged on the
    implementation's own output.  Compiled once by setup; the regenerated configuration is a
    parameter. *)
From CP Require Import Base.Prelude Base.Str Base.Regex Base.Cfg Base.Float64 Base.Timedelta
  Model.Lines Model.Sync Model.Instrument Model.Chart Model.Obs
  Spec.RefRegex Spec.C02 Spec.C03 Spec.C04 Spec.C05 Spec.C07 Spec.C11.
Open Scope Z_scope.

Definition parse_in := (str * option (list (str * str)))%type.
Definition parse_out := result (chart * list log).

Definition parse_verdict (c : cfg) (i : parse_in) (o : parse_out) : N :=
  verdict parse_eqb (from_file c (fst i) (snd i)) o.

Definition all_tracks (ch : chart) : list itrack := flat_map (fun p => map snd (snd p)) (c_tracks ch).

(** [wf] inputs must parse; on other inputs only model = implementation is compared. *)
Definition on_chart (wf : bool) (o : parse_out) (f : chart -> list log -> bool) : bool :=
  match o with
  | Ok (ch, logs) => f ch logs
  | Err _ => negb wf
  end.

(** *** C05 *)
Definition C05_spec (aux : bool * list (Z * Z)) (o : parse_out) : bool :=
  on_chart (fst aux) o (fun ch _ =>
    match all_tracks ch with
    | [tr] =>
        list_eqb (fun a b => (fst a =? fst b) && (snd a =? snd b))
                 (map (fun e => (sp_tick e, sp_sus e)) (it_sps tr)) (snd aux)
        && Spec.C05.spec_b tr
    | _ => false
    end).
