(** Harness/H.v — what the correspondence shards evaluate: for every property, the verdict
    "model = implementation" on one case and the executable specification judged on the
    implementation's own output.  Compiled once by setup; the regenerated configuration is a
    parameter. *)
From CP Require Import Base.Prelude Base.Str Base.Regex Base.Cfg Base.Float64 Base.Timedelta
  Model.Lines Model.Sync Model.Instrument Model.Chart Model.Obs
  Spec.RefRegex Spec.C02 Spec.C03 Spec.C04 Spec.C05 Spec.C07 Spec.C11.
Open Scope Z_scope.

Definition parse_in := (str * option (list (str * str)))%type.
Definition parse_out := result (chart * list log).

Definition parse_verdict (c : cfg) (i : parse_in) (o : parse_out) : N :=
  verdict parse_eqb (from_file c (fst i) (snd i)) o.

Definition all_tracks (ch : chart) : list itrack := flat_map (fun p => map snd (snd p)) (c_tracks ch).

(** [wf] inputs must parse; on other inputs only model = implementation is compared. *)
Definition on_chart (wf : bool) (o : parse_out) (f : chart -> list log -> bool) : bool :=
  match o with
  | Ok (ch, logs) => f ch logs
  | Err _ => negb wf
  end.

(** *** C05 *)
Definition C05_spec (aux : bool * list (Z * Z)) (o : parse_out) : bool :=
  on_chart (fst aux) o (fun ch _ =>
    match all_tracks ch with
    | [tr] =>
        list_eqb (fun a b => (fst a =? fst b) && (snd a =? snd b))
                 (map (fun e => (sp_tick e, sp_sus e)) (it_sps tr)) (snd aux)
        && Spec.C05.spec_b tr
    | _ => false
    end).

(** *** C11 *)
Definition qres := result (Z * Z).
Definition ZZ_eqb (a b : Z * Z) : bool := (fst a =? fst b) && (snd a =? snd b).
Definition qres_eqb : qres -> qres -> bool := result_eqb ZZ_eqb.
Definition gov_ticks (ticks : list Z) (t : Z) : Z := Zlength_ (filter (fun x => x <=? t) ticks) - 1.

Definition tempo_in := (Z * list (Z * str))%type.            (* resolution, (tick, numeral) *)
Definition C11q_in := (tempo_in * list (Z * Z))%type.        (* + queries (tick, hint) *)
Definition C11q_out := result (list qres).

Definition C11q_model (c : cfg) (i : C11q_in) : C11q_out :=
  let '((R, tm), qs) := i in
  let* B := build_bpm_events (tbl c) tm R in
  Ok (map (fun q => timestamp_at_tick B (fst q) (snd q)) qs).

Definition C11q_verdict (c : cfg) (i : C11q_in) (o : C11q_out) : N :=
  verdict (result_eqb (list_eqb qres_eqb)) (C11q_model c i) o.

Fixpoint zlookup {A} (k : Z) (l : list (Z * A)) : option A :=
  match l with
  | [] => None
  | (k', v) :: l' => if k =? k' then Some v else zlookup k l'
  end.

Definition C11q_spec (i : C11q_in) (o : C11q_out) : bool :=
  let '((R, tm), qs) := i in
  match o with
  | Err _ => false
  | Ok outs =>
      let ticks := map fst tm in
      let refs := flat_map (fun qr => if snd (fst qr) =? 0 then [(fst (fst qr), snd qr)] else [])
                           (combine qs outs) in
      Nat.eqb (length outs) (length qs) &&
      forallb (fun qr =>
                 let '((t, h), r) := qr in
                 let g := gov_ticks ticks t in
                 if h <=? g then
                   match zlookup t refs with
                   | Some r0 => qres_eqb r r0 && match r with Ok (_, idx) => idx =? g | Err _ => true end
                   | None => false
                   end
                 else qres_eqb r (Err EValue))
              (combine qs outs)
  end.

Definition bpm_as_timed (b : bpm_event) : timed := mkT (b_tick b) (b_ts b) (b_idx b).
Definition track_timed (tr : itrack) : list timed :=
  map n_at (it_notes tr) ++ map sp_at (it_sps tr) ++ map te_at (it_tevs tr).
(** every timed point except the tempo events themselves *)
Definition all_timed_nb (ch : chart) : list timed :=
  map ts_at (st_ts (c_sync ch))
  ++ map ge_at (g_text (c_gev ch)) ++ map ge_at (g_section (c_gev ch)) ++ map ge_at (g_lyric (c_gev ch))
  ++ flat_map track_timed (all_tracks ch).
Definition all_timed (ch : chart) : list timed :=
  map bpm_as_timed (evs (st_bpm (c_sync ch))) ++ all_timed_nb ch.
Definition note_ends (ch : chart) : list (result Z * Z) :=
  flat_map (fun tr => map (fun e => (let* l := longest_sustain (n_sustain e) in Ok (n_tick e + l), n_end_ts e))
                          (it_notes tr)) (all_tracks ch).

(** aux: is the file sorted (then an error is a violation)?  and the implementation's own
    un-hinted query for every tick occurring in the chart. *)
Definition C11c_spec (aux : bool * list (Z * qres)) (o : parse_out) : bool :=
  match o with
  | Err e => negb (fst aux) && errkind_eqb e EValue
  | Ok (ch, _) =>
      forallb (fun e => match zlookup (t_tick e) (snd aux) with
                        | Some r => timed_matches r e
                        | None => false end) (all_timed ch)
      && forallb (fun p => match fst p with
                           | Ok et => match zlookup et (snd aux) with
                                      | Some (Ok (ts, _)) => ts =? snd p
                                      | _ => false end
                           | Err _ => false end) (note_ends ch)
  end.

(** *** C02 *)
Definition the_track (ch : chart) : option itrack :=
  match all_tracks ch with [tr] => Some tr | _ => None end.

Definition C02_spec (aux : bool * list (Z * Z)) (o : parse_out) : bool :=
  on_chart (fst aux) o (fun ch _ =>
    match the_track ch with Some tr => Spec.C02.spec_b (snd aux) tr | None => false end).

(** *** C03
    aux: per tick the (index, length) pairs written; the implementation's own
    (longest_sustain, end_tick) per event; its own un-hinted queries; its last_note_end_timestamp. *)
Definition C03_aux := (bool * list (Z * list (Z * Z)) * list (Z * Z) * list (Z * qres) * option Z)%type.

Definition max_list (l : list Z) : option Z :=
  match l with [] => None | x :: xs => Some (fold_left Z.max xs x) end.

Definition C03_note_ok (groups : list (Z * list (Z * Z))) (qs : list (Z * qres)) (e : note_event) (le : Z * Z) : bool :=
  match zlookup (n_tick e) groups with
  | None => false
  | Some g =>
      let s := spec_sustain g in
      sustain_eqb (n_sustain e) s &&
      match max_list (sustain_values s) with
      | None => false
      | Some m =>
          (fst le =? m) && (snd le =? n_tick e + m) &&
          match zlookup (n_tick e + m) qs with
          | Some (Ok (ts, _)) => (ts =? n_end_ts e) && (t_ts (n_at e) <=? n_end_ts e)
          | _ => false
          end
      end
  end.

Definition C03_spec (aux : C03_aux) (o : parse_out) : bool :=
  let '(wf, groups, les, qs, last) := aux in
  on_chart wf o (fun ch _ =>
    match the_track ch with
    | Some tr =>
        Nat.eqb (length les) (length (it_notes tr)) &&
        forallb (fun p => C03_note_ok groups qs (fst p) (snd p)) (combine (it_notes tr) les) &&
        opt_Z_eqb last (max_list (map n_end_ts (it_notes tr))) &&
        opt_Z_eqb last (last_note_end tr)
    | None => false
    end).

(** *** C04  aux: resolution and (tap, forced) per event *)
Definition C04_spec (aux : bool * Z * list (bool * bool)) (o : parse_out) : bool :=
  let '(wf, R, flags) := aux in
  on_chart wf o (fun ch _ =>
    match the_track ch with Some tr => spec_b_chain R None (it_notes tr) flags | None => false end).

(** *** Line level (C07, C08, C09, C14): [K.ParsedData.from_chart_line] and the dispatcher *)
Definition dec_in := (kind * str)%type.
Definition dec_out := result pdata.
Definition dec_verdict (c : cfg) (i : dec_in) (o : dec_out) : N :=
  verdict (result_eqb pdata_eqb) (dec c (fst i) (snd i)) o.
(** The reference decoder: reference regexes of Spec/RefRegex.v, written from the property texts. *)
Definition dec_spec (c : cfg) (i : dec_in) (o : dec_out) : bool :=
  result_eqb pdata_eqb (dec (ref_cfg c) (fst i) (snd i)) o.

Definition disp_in := (list kind * list kind * list str)%type.      (* order tried, kinds reported, lines *)
Definition disp_res := (list (list pdata) * list str)%type.
Definition disp_out := result disp_res.
Definition disp_res_eqb (a b : disp_res) : bool :=
  list_eqb (list_eqb pdata_eqb) (fst a) (fst b) && list_eqb str_eqb (snd a) (snd b).
Definition disp_model (c : cfg) (i : disp_in) : disp_out :=
  let '(order, report, lines) := i in
  let* outs := dispatch c order lines in
  Ok (map (fun k => data_of k outs) report, warnings_of outs).
Definition disp_verdict (c : cfg) (i : disp_in) (o : disp_out) : N :=
  verdict (result_eqb disp_res_eqb) (disp_model c i) o.
(** Judged against the reference configuration in its canonical order [report]. *)
Definition disp_spec (c : cfg) (i : disp_in) (o : disp_out) : bool :=
  let '(order, report, lines) := i in
  result_eqb disp_res_eqb (disp_model (ref_cfg c) (report, report, lines)) o.

(** *** C14, chart level: unparsable lines inserted into a clean chart.
    aux: the implementation's parse of the clean chart and the inserted lines in routing order. *)
Definition C14_spec (aux : parse_out * list str * Z) (o : parse_out) : bool :=
  match fst (fst aux), o with
  | Ok (ch0, logs0), Ok (ch, logs) =>
      chart_eqb ch ch0 &&
      list_eqb log_eqb logs (logs0 ++ map LUnparsable (snd (fst aux))) &&
      (* conservation on the clean chart itself: every body line of the clean chart yields an event (a note event per tick) *)
      (Z.of_nat (length (all_timed ch0) + length (st_anchor (c_sync ch0))) =? snd aux)
  | Err e0, Err e => errkind_eqb e0 e
  | _, _ => false
  end.

(** *** C08, chart level: decoded values.  aux: the written (tick, n), (tick, u, l), (tick, us). *)
Definition C08_aux := (bool * list (Z * Z) * list (Z * Z * option Z) * list (Z * Z))%type.
Definition same_len {A B} (a : list A) (b : list B) : bool := Nat.eqb (length a) (length b).
Definition C08_spec (aux : C08_aux) (o : parse_out) : bool :=
  let '(wf, bpms, tss, ans) := aux in
  on_chart wf o (fun ch _ =>
    let s := c_sync ch in
    same_len (evs (st_bpm s)) bpms &&
    forallb (fun p => (b_tick (fst p) =? fst (snd p))
                      && f_same (b_bpm (fst p)) (fdiv (of_Z (snd (snd p))) (of_Z 1000)))
            (combine (evs (st_bpm s)) bpms) &&
    same_len (st_ts s) tss &&
    forallb (fun p => let '(t, u, l) := snd p in
                      (t_tick (ts_at (fst p)) =? t) && (ts_upper (fst p) =? u)
                      && (ts_lower (fst p) =? match l with Some l => 2 ^ l | None => 4 end))
            (combine (st_ts s) tss) &&
    same_len (st_anchor s) ans &&
    forallb (fun p => (a_tick (fst p) =? fst (snd p)) && (a_ts (fst p) =? snd (snd p)))
            (combine (st_anchor s) ans)).

(** *** C09, chart level: aux = expected (tick, value) lists for text, section, lyric. *)
Definition C09_aux := (bool * list (Z * str) * list (Z * str) * list (Z * str))%type.
Definition gev_pairs (l : list global_event) : list (Z * str) := map (fun e => (t_tick (ge_at e), ge_value e)) l.
Definition Zstr_eqb (a b : Z * str) : bool := (fst a =? fst b) && str_eqb (snd a) (snd b).
Definition C09_spec (aux : C09_aux) (o : parse_out) : bool :=
  let '(wf, tx, se, ly) := aux in
  on_chart wf o (fun ch _ =>
    list_eqb Zstr_eqb (gev_pairs (g_text (c_gev ch))) tx &&
    list_eqb Zstr_eqb (gev_pairs (g_section (c_gev ch))) se &&
    list_eqb Zstr_eqb (gev_pairs (g_lyric (c_gev ch))) ly).

(** *** C01 and C12: queries against the exact rational time (Spec/C01.v) and order (Spec/C12.v) *)
From CP Require Import Spec.C01 Spec.C12.

Definition tm_of (c : cfg) (tm : list (Z * str)) : list (Z * Z) :=
  map (fun p => (fst p, horner (tbl c) (snd p) 0)) tm.

(** Is (res, tm, t) inside the quantifier of C01 (decided in integers)? *)
Definition in_C01_domain (res : Z) (tm : list (Z * Z)) (t : Z) : bool :=
  (1 <=? res) && (res <? 2 ^ 53) && forallb (fun p => (1 <=? snd p) && (snd p <=? 10 ^ 9)) tm
  && (0 <=? t) && (t <? 2 ^ 53)
  && (let '(N, D) := exact_frac res tm t in N <=? 10 ^ 12 * D).

Definition C01q_spec (c : cfg) (i : C11q_in) (o : C11q_out) : bool :=
  let '((res, tmraw), qs) := i in
  let tm := tm_of c tmraw in
  match o with
  | Err _ => false
  | Ok outs =>
      same_len outs qs &&
      forallb (fun qr =>
                 let '((t, h), r) := qr in
                 if in_C01_domain res tm t && (h =? 0) then
                   match r with
                   | Ok (us, idx) => within_slack res tm t us && (idx =? segments tm t - 1)
                                     && (if t =? 0 then us =? 0 else true)
                   | Err _ => false
                   end
                 else true)
              (combine qs outs)
  end.

(** Chart level: aux = (resolution, tempo map as written); every timed point and every note end of the
    implementation's chart is within the slack of the exact time of its tick. *)
Definition C01c_spec (aux : bool * Z * list (Z * Z) * option (list Z)) (o : parse_out) : bool :=
  let '(wf, res, tm, ends) := aux in
  on_chart wf o (fun ch _ =>
    (* the ticks at which the notes end are the WRITTEN ones (tick + longest written lane / open length), when the case says them *)
    match ends with
    | Some l => Nat.eqb (length (note_ends ch)) (length l)
                && forallb (fun p => match fst (fst p) with Ok x => x =? snd p | Err _ => false end) (combine (note_ends ch) l)
    | None => true
    end &&
    forallb (fun e => negb (in_C01_domain res tm (t_tick e)) || within_slack res tm (t_tick e) (t_ts e))
            (all_timed ch)
    && forallb (fun p => match fst p with
                         | Ok et => negb (in_C01_domain res tm et) || within_slack res tm et (snd p)
                         | Err _ => false end) (note_ends ch)).

(** C12: the queried ticks are given in ascending order. *)
Definition C12q_spec (c : cfg) (i : C11q_in) (o : C11q_out) : bool :=
  let '((res, tmraw), qs) := i in
  let tm := tm_of c tmraw in
  match o with
  | Err _ => false
  | Ok outs =>
      let tmax := fold_left Z.max (map fst qs) 0 in
      let strict := forallb (fun p => snd p * res <=? 30000000000) tm && in_C01_domain res tm tmax in
      same_len outs qs &&
      forallb (fun r => match r with Ok _ => true | Err _ => false end) outs &&
      mono_b strict (map (fun qr => (fst (fst qr), match snd qr with Ok (us, _) => us | Err _ => 0 end))
                         (combine qs outs))
  end.

(** Chart level: all timed points of all tracks, pairwise. *)
Definition C12c_spec (wf : bool) (o : parse_out) : bool :=
  on_chart wf o (fun ch _ =>
    let pts := map (fun e => (t_tick e, t_ts e)) (all_timed ch)
               ++ flat_map (fun p => match fst p with Ok et => [(et, snd p)] | Err _ => [] end) (note_ends ch) in
    forallb (fun a => forallb (fun b =>
               (if fst a =? fst b then snd a =? snd b else true)
               && (if fst a <=? fst b then snd a <=? snd b else true)) pts) pts
    && forallb (fun tr => forallb (fun e => t_ts (n_at e) <=? n_end_ts e) (it_notes tr)) (all_tracks ch)).

(** *** C15 *)
(** No timed point (incl. note ends) of a returned chart is governed by a tempo of zero. *)
Definition governed_positive (B : bpm_events) (t : Z) : bool :=
  match nth_Z (evs B) (gov_ticks (map b_tick (evs B)) t) with
  | Some p => negb (f_le (b_bpm p) fzero)
  | None => false
  end.
Definition C15c_spec (aux : option bool) (o : parse_out) : bool :=
  match o with
  | Err e => match aux with Some false => false | _ => errkind_eqb e EValue end
  | Ok (ch, _) =>
      match aux with Some true => false | _ => true end &&
      let B := st_bpm (c_sync ch) in
      (0 <? resolution B) &&
      match evs B with e0 :: _ => b_tick e0 =? 0 | [] => false end &&
      match st_ts (c_sync ch) with t0 :: _ => t_tick (ts_at t0) =? 0 | [] => false end &&
      forallb (fun e => governed_positive B (t_tick e)) (all_timed_nb ch) &&
      forallb (fun p => match fst p with Ok et => governed_positive B et | Err _ => false end) (note_ends ch)
  end.
(** Queries: a negative tick, or a tick governed by a zero tempo, raises ValueError whatever the hint. *)
Definition C15q_spec (c : cfg) (i : C11q_in) (o : C11q_out) : bool :=
  let '((res, tmraw), qs) := i in
  let tm := tm_of c tmraw in
  match o with
  | Err _ => true
  | Ok outs =>
      same_len outs qs &&
      forallb (fun qr =>
                 let '((t, h), r) := qr in
                 let zero := match nth_Z tm (gov_ticks (map fst tm) t) with Some p => snd p =? 0 | None => true end in
                 if (t <? 0) || zero then qres_eqb r (Err EValue) else true)
              (combine qs outs)
  end.

(** *** C16 *)
From CP Require Import Spec.C16.
Definition nps_call := (str * str * bound * bound)%type.
Definition C16_in := (parse_in * list nps_call)%type.
Definition C16_out := result (chart * list (result f64)).
Definition C16_model (c : cfg) (i : C16_in) : C16_out :=
  let* (ch, _) := from_file c (fst (fst i)) (snd (fst i)) in
  Ok (ch, map (fun k => let '(a, b, s, e) := k in notes_per_second ch a b s e) (snd i)).
Definition C16_verdict (c : cfg) (i : C16_in) (o : C16_out) : N :=
  verdict (result_eqb (fun x y => chart_eqb (fst x) (fst y) && list_eqb float_result_eqb (snd x) (snd y)))
          (C16_model c i) o.
(** Judged on the implementation's OWN chart: each call's result against [spec_nps]. *)
Definition C16_spec (i : C16_in) (o : C16_out) : bool :=
  match o with
  | Err _ => false
  | Ok (ch, outs) =>
      same_len outs (snd i) &&
      forallb (fun kr => let '((a, b, s, e), r) := kr in
                         if consistent s e then Spec.C16.spec_b ch a b s e r else true)
              (combine (snd i) outs)
  end.

(** *** C10 *)
From CP Require Import Spec.C10.
Definition doc_fields : list meta_field :=
  map (fun d => let '(n, p, k, r, dv) := d in
                {| mf_name := of_string n; mf_pascal := of_string p;
                   mf_re := ref_meta (of_string p) k; mf_kind := k; mf_required := r; mf_default := dv |})
      doc_table.
(** The documented configuration: reference recognisers, documented fields and defaults; only the
    character tables are taken from the running interpreter. *)
Definition doc_cfg (c : cfg) : cfg :=
  let r := ref_cfg c in
  {| tbl := tbl r; re_note := re_note r; re_sp := re_sp r; re_tev := re_tev r; re_bpm := re_bpm r;
     re_ts := re_ts r; re_anchor := re_anchor r; re_text := re_text r; re_section := re_section r;
     re_lyric := re_lyric r; re_header := re_header r; meta_fields := doc_fields;
     order_instr := order_instr r; order_sync := order_sync r; order_events := order_events r;
     instr_values := instr_values r; diff_values := diff_values r; nti_values := nti_values r;
     player2_values := player2_values r; tag_song := tag_song r; tag_sync := tag_sync r;
     tag_events := tag_events r; required_tags := required_tags r; eighth_triplet := eighth_triplet r;
     default_lower := default_lower r; sp_literal := sp_literal r; autoinsert_tracks := autoinsert_tracks r |}.
Definition C10_in := list str.
Definition C10_out := result metadata.
Definition C10_verdict (c : cfg) (i : C10_in) (o : C10_out) : N :=
  verdict (result_eqb metadata_eqb) (meta_parse c i) o.
Definition C10_spec (c : cfg) (i : C10_in) (o : C10_out) : bool :=
  result_eqb metadata_eqb (meta_parse (doc_cfg c) i) o.

(** *** C06 / C13: relations between two parses of the implementation *)
From CP Require Import Spec.ChartSpec.
Fixpoint remove1 {A} (eqb : A -> A -> bool) (x : A) (l : list A) : option (list A) :=
  match l with
  | [] => None
  | y :: l' => if eqb x y then Some l' else match remove1 eqb x l' with Some r => Some (y :: r) | None => None end
  end.
Fixpoint perm_b {A} (eqb : A -> A -> bool) (a b : list A) : bool :=
  match a with
  | [] => match b with [] => true | _ => false end
  | x :: a' => match remove1 eqb x b with Some b' => perm_b eqb a' b' | None => false end
  end.
Definition track_keys (m : list (str * list (str * itrack))) : list (str * str) :=
  flat_map (fun p => map (fun q => (fst p, fst q)) (snd p)) m.
Definition opt_track_eqb := option_eqb itrack_eqb.
Definition tracks_equiv_b (a b : list (str * list (str * itrack))) : bool :=
  forallb (fun k => opt_track_eqb (lookup_tracks a (fst k) (snd k)) (lookup_tracks b (fst k) (snd k)))
          (track_keys a ++ track_keys b)
  && perm_b str_eqb (map fst a) (map fst b)
  && forallb (fun p => negb (Nat.eqb (length (snd p)) 0)) a.
Definition chart_equiv_b (a b : chart) : bool :=
  metadata_eqb (c_meta a) (c_meta b) && sync_eqb (c_sync a) (c_sync b) && gev_eqb (c_gev a) (c_gev b)
  && tracks_equiv_b (c_tracks a) (c_tracks b).

(** C06.  aux = (the implementation's parse of the canonical rendering (LF, no BOM, canonical section
    order, no unknown sections), tags of the unknown sections added, expected (instrument, difficulty)
    keys, was a required section removed?). *)
Definition C06_aux := (parse_out * list str * list (str * str) * bool * Z * str)%type.
Definition pair_eqb2 (a b : str * str) : bool := str_eqb (fst a) (fst b) && str_eqb (snd a) (snd b).
Definition C06_spec (aux : C06_aux) (o : parse_out) : bool :=
  let '(base, unknown, keys, removed, n_events, song_name) := aux in
  if removed then match o with Err e => errkind_eqb e EValue | Ok _ => false end
  else
    match base, o with
    | Ok (ch0, logs0), Ok (ch, logs) =>
        (* the canonical rendering itself: built from valid lines only, so nothing is reported and every body line of the tempo,
           event and instrument sections has become an event (a note event per tick) of the part its section feeds *)
        match logs0 with [] => true | _ => false end
        && (Z.of_nat (length (all_timed ch0) + length (st_anchor (c_sync ch0))) =? n_events)
        (* ... and [Song] has fed the metadata: the Name written there (before the Resolution line) is the chart's name *)
        && match assoc (of_string "name"%string) (c_meta ch0) with Some (MVStr v) => str_eqb v song_name | _ => false end
        && chart_equiv_b ch ch0
        && perm_b log_eqb logs (logs0 ++ map LUnhandled unknown)
        && perm_b pair_eqb2 (track_keys (c_tracks ch)) keys
        && forallb (fun p => forallb (fun q => str_eqb (it_instr (snd q)) (fst p) && str_eqb (it_diff (snd q)) (fst q))
                                     (snd p)) (c_tracks ch)
    (* the generator builds every base chart from valid section bodies (possibly empty ones): with all three required
       sections present the file must be accepted, in the canonical rendering and in every variant *)
    | _, _ => false
    end.

(** C13.  aux = (the implementation's unrestricted parse of the ORIGINAL text, the selection, the key
    of the one section whose body was replaced (if any)). *)
Definition C13_aux := (parse_out * option (list (str * str)) * option (str * str))%type.
Definition C13_spec (aux : C13_aux) (o : parse_out) : bool :=
  let '(base, sel, changed) := aux in
  match base, o with
  | Ok (ch0, _), Ok (ch, _) =>
      metadata_eqb (c_meta ch) (c_meta ch0) && sync_eqb (c_sync ch) (c_sync ch0) && gev_eqb (c_gev ch) (c_gev ch0)
      && forallb (fun k =>
                    match changed with
                    | Some ck => pair_eqb2 k ck
                    | None => false
                    end
                    || opt_track_eqb (lookup_tracks (c_tracks ch) (fst k) (snd k))
                                     (if wanted sel k then lookup_tracks (c_tracks ch0) (fst k) (snd k) else None))
                 (track_keys (c_tracks ch) ++ track_keys (c_tracks ch0))
      && forallb (fun p => negb (Nat.eqb (length (snd p)) 0)) (c_tracks ch)
  | Ok _, Err _ =>
      (* a selection alone never makes a parse fail; a replaced body may (when it is selected) *)
      match changed with Some ck => wanted sel ck | None => false end
  (* the ORIGINAL text is assembled by the generator from valid section bodies: its unrestricted parse must succeed *)
  | Err _, _ => false
  end.

(** *** C20 *)
From CP Require Import Model.Imports.
Definition C20_obs := (bool * list (modname * list (name * String.string)) * list (modname * list name)
                       * list (modname * list (name * String.string)))%type.
Definition C20_verdict_N (P : progs) (seq : list modname) (o : C20_obs) : N :=
  let '(ok, obs, names, _) := o in if C20_verdict P seq ok obs names then 0%N else 1%N.
(** Judged on the implementation alone: the imports succeed and every loaded module shows exactly the
    names, bound to the same objects (identity labels) and, for plain data, to equal values (digests), that it shows
    when the same set of modules is imported in sorted order in another fresh interpreter ([base]). *)
Definition lookup_s {A} (k : String.string) (l : list (String.string * A)) : option A :=
  match find (fun p => String.eqb k (fst p)) l with Some p => Some (snd p) | None => None end.
Definition name_lab_eqb (a b : name * String.string) : bool := String.eqb (fst a) (fst b) && String.eqb (snd a) (snd b).
Definition same_bindings (obs base : list (modname * list (name * String.string))) : bool :=
  Nat.eqb (length obs) (length base)
  && forallb (fun p => match lookup_s (fst p) base with
                       | Some ns => perm_b name_lab_eqb (snd p) ns
                       | None => false end) obs.
Definition C20_spec (base : list (modname * list (name * String.string)) * list (modname * list (name * String.string)))
           (seq : list modname) (o : C20_obs) : bool :=
  let '(ok, obs, names, vals) := o in
  ok && forallb (fun m => match lookup_s m obs with Some _ => true | None => false end) seq
  && same_bindings obs (fst base) && same_bindings vals (snd base).

(** C06 input: read by path (utf-8-sig + universal newlines, modelled by [from_filepath]) or from an
    already decoded text. *)
Definition C06_in := (bool * str * option (list (str * str)))%type.
Definition C06_verdict (c : cfg) (i : C06_in) (o : parse_out) : N :=
  let '(by_path, text, want) := i in
  verdict parse_eqb (if by_path then from_filepath c text want else from_file c text want) o.

(** *** C19 *)
From CP Require Import Model.ChartState.
Definition opres_eqb (a b : opres) : bool :=
  match a, b with
  | RKeys x, RKeys y => list_eqb str_eqb x y
  | RFloat x, RFloat y => float_result_eqb x y
  | RQuery x, RQuery y => qres_eqb x y
  | RTime x, RTime y => Z_result_eqb x y
  | RDone, RDone => true
  | RBool x, RBool y => Bool.eqb x y
  | RErr x, RErr y => errkind_eqb x y
  | _, _ => false
  end.
(** One observed step: (is the full rendering of the chart unchanged?, instrument keys, chart == twin, result). *)
Definition C19_step := (bool * list str * bool * opres)%type.
Definition C19_in := (parse_in * list op)%type.
Definition C19_out := result (chart * list C19_step).
Fixpoint run_obs (auto : bool) (st : cstate) (ops : list op) : list C19_step :=
  match ops with
  | [] => []
  | o :: r => let '(st', res) := step auto st o in
              (true, snd (obs st'), match cs_extra st' with [] => true | _ => false end, res) :: run_obs auto st' r
  end.
Definition C19_step_eqb (a b : C19_step) : bool :=
  let '(u1, k1, t1, r1) := a in let '(u2, k2, t2, r2) := b in
  Bool.eqb u1 u2 && list_eqb str_eqb k1 k2 && Bool.eqb t1 t2 && opres_eqb r1 r2.
Definition C19_model (c : cfg) (i : C19_in) : C19_out :=
  let* (ch, _) := from_file c (fst (fst i)) (snd (fst i)) in
  Ok (ch, run_obs (autoinsert_tracks c) (init_state ch) (snd i)).
Definition C19_verdict (c : cfg) (i : C19_in) (o : C19_out) : N :=
  verdict (result_eqb (fun x y => chart_eqb (fst x) (fst y) && list_eqb C19_step_eqb (snd x) (snd y))) (C19_model c i) o.
(** Judged on the implementation alone: nothing observable ever changes, the twin stays equal,
    assignments are rejected. *)
Definition C19_spec (i : C19_in) (o : C19_out) : bool :=
  match o with
  | Err _ => false
  | Ok (ch, steps) =>
      same_len steps (snd i) &&
      forallb (fun os => let '(o1, (u, k, t, r)) := os in
                         u && list_eqb str_eqb k (map fst (c_tracks ch)) && t
                         && match o1 with OSetAttr => opres_eqb r (RErr EFrozen) | _ => true end)
              (combine (snd i) steps)
  end.

(** *** C18: aux = did str()/repr() of the chart and of every event and track succeed? *)
From CP Require Import Spec.C18.
Definition C18_spec (c : cfg) (aux : bool) (i : parse_in) (o : parse_out) : bool :=
  if bounded (tbl c) (fst i) then
    match o with
    | Ok _ => aux
    | Err e => doc_err e
    end
  else true.

(** *** C07, track level: the parsed track holds exactly the written N / S / E lines.
    aux: (tick, index) of the N lines, (tick, length) of the S lines, (tick, word) of the E lines. *)
Definition C07t_spec (aux : bool * list (Z * Z) * list (Z * Z) * list (Z * str)) (o : parse_out) : bool :=
  let '(wf, nl, sl, el) := aux in
  on_chart wf o (fun ch _ =>
    match the_track ch with
    | Some tr =>
        Spec.C02.spec_b nl tr
        && list_eqb ZZ_eqb (map (fun e => (sp_tick e, sp_sus e)) (it_sps tr)) sl
        && list_eqb Zstr_eqb (map (fun e => (t_tick (te_at e), te_value e)) (it_tevs tr)) el
    | None => false
    end).

(** C06 by path, from the BYTES of the file (utf-8-sig codec + universal newlines + from_file). *)
From CP Require Import Base.Utf8 Model.ChartBytes.
Definition C06b_in := (list N * option (list (str * str)))%type.
Definition C06b_verdict (c : cfg) (i : C06b_in) (o : parse_out) : N :=
  verdict parse_eqb (from_filepath_bytes c (fst i) (snd i)) o.
