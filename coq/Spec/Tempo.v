(** Spec/Tempo.v — the invariant of every successfully built tempo list, shared by C01 and C12:
    ticks strictly increase from 0, the first timestamp is 0 and each later timestamp is the previous
    one plus the microsecond duration [seg_us] of the segment between them. *)
From CP Require Import Base.Prelude Base.Str Base.Float64 Base.Timedelta Model.Sync Spec.FloatSpec Spec.C11.
From Coq Require Import Reals.
Open Scope Z_scope.

Definition seg_ok (res : Z) (e e' : bpm_event) : Prop :=
  b_tick e < b_tick e' /\
  exists d, seg_us (b_bpm e) res (b_tick e' - b_tick e) = Ok d /\ b_ts e' = b_ts e + d.

Fixpoint chained (res : Z) (es : list bpm_event) : Prop :=
  match es with
  | e :: ((e' :: _) as rest) => seg_ok res e e' /\ chained res rest
  | _ => True
  end.

Definition tempo_wf (B : bpm_events) : Prop :=
  0 < resolution B /\
  (exists e0 rest, evs B = e0 :: rest /\ b_tick e0 = 0 /\ b_ts e0 = 0) /\
  chained (resolution B) (evs B).

(** Every tempo list the parser builds satisfies the invariant. *)
Definition built_tempo_wf_stmt : Prop :=
  forall T datas res B, build_bpm_events T datas res = Ok B -> tempo_wf B /\ resolution B = res.

(** A tempo map as written in the file: (tick, n) with n the integer after "B" (thousandths of a
    BPM).  [matches_tm] ties a built tempo list to it. *)
Definition matches_tm (es : list bpm_event) (tm : list (Z * Z)) : Prop :=
  Forall2 (fun e p => b_tick e = fst p /\ b_bpm e = bpm_of_n (snd p)) es tm.

Definition built_matches_stmt : Prop :=
  forall T datas tm res B,
    Forall2 (fun d p => fst d = fst p /\ py_int T (snd d) = Ok (snd p) /\ 1 <= snd p < 2 ^ 52) datas tm ->
    build_bpm_events T datas res = Ok B -> matches_tm (evs B) tm.

(** The un-hinted public query. *)
Definition ts_of (B : bpm_events) (t : Z) : result Z := timestamp_at_tick_no_optimize_return B t.
