(** Spec/ChartSpec.v — definitions shared by the chart-level properties (C06, C13, C01/C11/C12 at chart
    level, C18): the part of [from_file] that works on the framed sections, rendering of sections to
    text, and look-ups in the parsed chart. *)
From CP Require Import Base.Prelude Base.Str Base.Regex Base.Cfg Base.Float64 Base.Timedelta
  Model.Lines Model.Sync Model.Instrument Model.Chart Spec.RefRegex.
From Coq Require Import Permutation.
Open Scope Z_scope.

Definition sec := (str * list str)%type.

(** Everything [Chart.from_file] does after [_partition_lines_by_data_section]. *)
Definition from_secs (c : cfg) (secs : list sec) (want : option (list (str * str)))
  : result (chart * list log) :=
  if negb (forallb (fun t => match assoc t secs with Some _ => true | None => false end)
                   (required_tags c))
  then Err EValue
  else
    let* song := sec_lookup (tag_song c) secs in
    let* meta := meta_parse c song in
    let* R := meta_resolution meta in
    let* sync_lines := sec_lookup (tag_sync c) secs in
    let* (sync, w1) := sync_from_lines c R sync_lines in
    let* ev_lines := sec_lookup (tag_events c) secs in
    let* (gev, w2) := globals_from_lines c ev_lines (st_bpm sync) in
    let* (tracks, logs) :=
      route c (st_bpm sync) want secs [] (map LUnparsable w1 ++ map LUnparsable w2) in
    Ok ({| c_meta := meta; c_gev := gev; c_sync := sync; c_tracks := tracks |}, logs).

Definition from_file_secs_stmt : Prop :=
  forall c text want,
    from_file c text want =
    (let* secs := partition c (splitlines (tbl c) text) in from_secs c secs want).

(** Rendering: "[tag]", "{", the body lines, "}". *)
Definition header_line (tag : str) : str := [91%N] ++ tag ++ [93%N].
Definition sec_lines (s : sec) : list str := header_line (fst s) :: OPEN_BRACE :: snd s ++ [CLOSE_BRACE].
Definition lines_of (secs : list sec) : list str := flat_map sec_lines secs.
Definition join (nl : str) (lines : list str) : str := concat (map (fun l => l ++ nl) lines).
Definition NL_LF : str := [LF].
Definition NL_CRLF : str := [CR; LF].

Definition tag_ok (tag : str) : Prop := tag <> [] /\ Forall (fun ch => ch <> LF) tag.
Definition body_ok (body : list str) : Prop := Forall (fun l => l <> OPEN_BRACE /\ l <> CLOSE_BRACE) body.
Definition wf_secs (secs : list sec) : Prop :=
  NoDup (map fst secs) /\ Forall (fun s => tag_ok (fst s) /\ body_ok (snd s)) secs.
Definition no_breaks (T : tables) (l : str) : Prop := Forall (fun ch => is_break T ch = false) l.

(** Side conditions on the regenerated configuration used by the chart-level theorems. *)
Fixpoint nodup_strs (l : list str) : bool :=
  match l with [] => true | x :: xs => negb (existsb (str_eqb x) xs) && nodup_strs xs end.
Open Scope string_scope.
Definition chart_items (c : cfg) : list (String.string * bool) :=
  [ ("the section header recogniser is the reference one", re_eqb (re_header c) ref_header);
    ("the 40 section names <Difficulty><Instrument> are pairwise distinct", nodup_strs (map fst (header_pairs c)));
    ("there are 10 instruments and 4 difficulties, pairwise distinct",
      Nat.eqb (length (instr_values c)) 10 && Nat.eqb (length (diff_values c)) 4
      && nodup_strs (instr_values c) && nodup_strs (diff_values c));
    ("no instrument section name is a required section name",
      forallb (fun t => negb (existsb (str_eqb t) (map fst (header_pairs c)))) (required_tags c));
    ("the required sections are Song, SyncTrack, Events (the three parsers' own tags)",
      list_eqb str_eqb (required_tags c) [tag_song c; tag_sync c; tag_events c] && nodup_strs (required_tags c));
    ("line boundaries: LF and CR are boundaries, '[', ']', '{', '}' are not",
      is_break (tbl c) LF && is_break (tbl c) CR
      && forallb (fun ch => negb (is_break (tbl c) ch)) [91%N; 93%N; 123%N; 125%N]) ].
Definition cfg_ok_chart (c : cfg) : bool := forallb snd (chart_items c).
Close Scope string_scope.

(** Look-up in the nested track mapping as a finite map. *)
Definition lookup_tracks (m : list (str * list (str * itrack))) (i d : str) : option itrack :=
  match assoc i m with Some inner => assoc d inner | None => None end.

(** Two parses are equivalent when metadata, sync track and global events are equal and the track
    mappings are equal as finite maps (Python's dict equality ignores insertion order) with the same
    instrument key sets. *)
Definition tracks_equiv (a b : list (str * list (str * itrack))) : Prop :=
  (forall i d, lookup_tracks a i d = lookup_tracks b i d) /\
  (forall i, (assoc i a = None <-> assoc i b = None)).
Definition chart_equiv (a b : chart) : Prop :=
  c_meta a = c_meta b /\ c_sync a = c_sync b /\ c_gev a = c_gev b /\ tracks_equiv (c_tracks a) (c_tracks b).
Definition parse_equiv (x y : result (chart * list log)) : Prop :=
  match x, y with
  | Ok (c1, l1), Ok (c2, l2) => chart_equiv c1 c2 /\ Permutation l1 l2
  | Err _, Err _ => True
  | _, _ => False
  end.

(** Does every wanted instrument section of [secs] build? *)
Definition builds (c : cfg) (B : bpm_events) (want : option (list (str * str))) (s : sec) : Prop :=
  match header_lookup c (fst s) with
  | Some (i, d) => wanted want (i, d) = true -> exists tr ws, itrack_from_lines c i d (snd s) B = Ok (tr, ws)
  | None => True
  end.
