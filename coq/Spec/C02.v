(** Spec/C02.v — One note event per tick; lanes are exactly the lanes written. *)
From CP Require Import Base.Prelude Base.Str Base.Regex Base.Cfg Base.Float64 Base.Timedelta
  Model.Lines Model.Sync Model.Instrument.
From Coq Require Import Sorted.
Open Scope Z_scope.

Definition group_tick (g : list ndata) : Z := match g with d :: _ => nd_tick d | [] => 0 end.

(** Grouping loses, duplicates and reorders nothing. *)
Definition C02_concat_stmt : Prop := forall l, concat (group_by_tick l) = l.

(** Every group is non-empty and all its lines carry the same tick. *)
Definition C02_uniform_stmt : Prop :=
  forall l, Forall (fun g => g <> [] /\ Forall (fun d => nd_tick d = group_tick g) g) (group_by_tick l).

(** Neighbouring groups have different ticks (contiguous runs are maximal). *)
Fixpoint adjacent_differ (ts : list Z) : Prop :=
  match ts with
  | a :: ((b :: _) as rest) => a <> b /\ adjacent_differ rest
  | _ => True
  end.
Definition C02_maximal_stmt : Prop :=
  forall l, adjacent_differ (map group_tick (group_by_tick l)).

(** In a well-formed section (note ticks non-decreasing in file order; any gaps, including 1) the
    group ticks are strictly increasing — one group per distinct tick — and each group holds
    exactly the lines of its tick, in file order. *)
Definition C02_sorted_stmt : Prop :=
  forall l, Sorted Z.le (map nd_tick l) ->
    StronglySorted Z.lt (map group_tick (group_by_tick l)) /\
    Forall (fun g => g = filter (fun d => nd_tick d =? group_tick g) l) (group_by_tick l).

(** Lanes: bit k is set exactly when some line of the group names lane k (k = 0..4); flag and
    open indices (5, 6, 7) set nothing. *)
Definition C02_lanes_stmt : Prop :=
  forall g, length (lanes_of g) = 5%nat /\
    forall k, (k < 5)%nat ->
      (nth k (lanes_of g) false = true <-> exists d, In d g /\ nd_idx d = Z.of_nat k).

Definition C02_open_stmt : Prop :=
  forall g, (forall d, In d g -> 5 <= nd_idx d) -> lanes_of g = no_lanes.

(** The builder produces exactly one event per group, in order, at the group's tick and with
    the group's lanes. *)
Definition C02_events_stmt : Prop :=
  forall c B sps groups prev hint cursor notes,
    build_notes c B sps groups prev hint cursor = Ok notes ->
    Forall2 (fun g e => n_tick e = group_tick g /\ n_note e = lanes_of g) groups notes.

(** Interleaved star-power / track-event / unparsable lines do not disturb the note data: a line
    which is not claimed as a note can be removed without changing the note data. *)
Definition C02_interleave_stmt : Prop :=
  forall c order l1 j l2 outs outs' o,
    try_kinds c order j = Ok o -> (forall d, o <> Claimed KNote d) ->
    dispatch c order (l1 ++ j :: l2) = Ok outs -> dispatch c order (l1 ++ l2) = Ok outs' ->
    data_of KNote outs = data_of KNote outs'.

(** Executable check on the implementation's output: given the (tick, index) pairs of the N lines
    of the section in file order (ticks non-decreasing), the events are exactly one per distinct
    tick, strictly increasing, with exactly the written lanes. *)
Fixpoint dedup_adjacent (l : list Z) : list Z :=
  match l with
  | a :: ((b :: _) as rest) => if a =? b then dedup_adjacent rest else a :: dedup_adjacent rest
  | _ => l
  end.
Definition lanes_written (nl : list (Z * Z)) (t : Z) : list bool :=
  map (fun k => existsb (fun p => (fst p =? t) && (snd p =? k)) nl) [0; 1; 2; 3; 4].
Definition spec_b (nl : list (Z * Z)) (tr : itrack) : bool :=
  list_eqb Z.eqb (map n_tick (it_notes tr)) (dedup_adjacent (map fst nl))
  && forallb (fun e => lanes_eqb (n_note e) (lanes_written nl (n_tick e))) (it_notes tr).
