(** Spec/C16.v — notes_per_second is count-in-closed-interval over interval length. *)
From CP Require Import Base.Prelude Base.Str Base.Regex Base.Cfg Base.Float64 Base.Timedelta
  Model.Lines Model.Sync Model.Instrument Model.Chart Spec.Tempo.
Open Scope Z_scope.

(** Number of note events whose START time lies in the closed interval [a, b] (microseconds). *)
Definition count_closed (notes : list note_event) (a b : Z) : Z :=
  Zlength_ (filter (fun e => (a <=? t_ts (n_at e)) && (t_ts (n_at e) <=? b)) notes).

(** The call forms the API offers: both ticks, both timestamps, or omitted — a tick mixed with a
    timestamp (and an omitted start with a timestamp end) runs into the source's assert. *)
Definition consistent (s e : bound) : bool :=
  match s, e with
  | BTime _, BTick _ => false
  | BNone, BTime _ | BTick _, BTime _ => false
  | _, _ => true
  end.

(** A bound as a time: a tick bound means the tempo-map time of that tick, an omitted start means
    time zero and an omitted end means the track's last note end. *)
Definition start_time (B : bpm_events) (s : bound) : result Z :=
  match s with BNone => Ok 0 | BTick t => ts_of B t | BTime u => Ok u end.
Definition end_time (B : bpm_events) (tr : itrack) (e : bound) : result Z :=
  match e with
  | BNone => match last_note_end tr with Some l => Ok l | None => Err EAssertion end
  | BTick t => ts_of B t
  | BTime u => Ok u
  end.

(** count / (length in seconds), as the two float divisions Python performs; non-positive length is
    a ValueError.  Stated for interval lengths and counts that convert to float exactly. *)
Definition rate (notes : list note_event) (a b : Z) : result f64 :=
  if b - a <=? 0 then Err EValue
  else Ok (fdiv (of_Z (count_closed notes a b)) (fdiv (of_Z (b - a)) (of_Z 1000000))).

Definition spec_nps (ch : chart) (i d : str) (s e : bound) : result f64 :=
  match track_lookup ch i d with
  | None => Err EValue
  | Some tr =>
      match it_notes tr with
      | [] => Err EValue
      | _ =>
          let B := st_bpm (c_sync ch) in
          let* a := start_time B s in
          let* b := end_time B tr e in
          rate (it_notes tr) a b
      end
  end.

(** In range: both times within +-10^15 us (about 31 years), far inside timedelta's range and below
    2^53 so that every int -> float conversion is exact. *)
Definition in_range (ch : chart) (i d : str) (s e : bound) : Prop :=
  forall tr a b, track_lookup ch i d = Some tr ->
    start_time (st_bpm (c_sync ch)) s = Ok a -> end_time (st_bpm (c_sync ch)) tr e = Ok b ->
    Z.abs a <= 10 ^ 15 /\ Z.abs b <= 10 ^ 15 /\ Zlength_ (it_notes tr) < 2 ^ 53.

Definition C16_main_stmt : Prop :=
  forall ch i d s e, consistent s e = true -> in_range ch i d s e ->
    notes_per_second ch i d s e = spec_nps ch i d s e.

(** Absent track, note-less track: ValueError whatever the bounds. *)
Definition C16_absent_stmt : Prop :=
  forall ch i d s e, track_lookup ch i d = None -> notes_per_second ch i d s e = Err EValue.
Definition C16_noteless_stmt : Prop :=
  forall ch i d s e tr, track_lookup ch i d = Some tr -> it_notes tr = [] ->
    notes_per_second ch i d s e = Err EValue.

(** Tick-bounded and time-bounded calls agree. *)
Definition C16_tick_vs_time_stmt : Prop :=
  forall ch i d ta tb ua ub,
    ts_of (st_bpm (c_sync ch)) ta = Ok ua -> ts_of (st_bpm (c_sync ch)) tb = Ok ub ->
    notes_per_second ch i d (BTick ta) (BTick tb) = notes_per_second ch i d (BTime ua) (BTime ub).

(** The float content: for 0 < len <= 2*10^15 and 0 <= n < 2^53 the result is RN (n / RN (len / 10^6)),
    finite and non-negative; in particular it is 0 exactly when no note starts in the interval. *)
Definition C16_rate_zero_stmt : Prop :=
  forall notes a b x, rate notes a b = Ok x -> 0 < b - a <= 2 * 10 ^ 15 ->
    Zlength_ notes < 2 ^ 53 ->
    (count_closed notes a b = 0 <-> is_zero x = true).

(** Executable check on the implementation's output. *)
Definition spec_b (ch : chart) (i d : str) (s e : bound) (o : result f64) : bool :=
  match spec_nps ch i d s e, o with
  | Ok x, Ok y => f_same x y
  | Err e1, Err e2 => errkind_eqb e1 e2
  | _, _ => false
  end.
