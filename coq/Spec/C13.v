(** Spec/C13.v — Track selection restricts the parse and tracks do not interfere. *)
From CP Require Import Base.Prelude Base.Str Base.Regex Base.Cfg Base.Float64 Base.Timedelta
  Model.Lines Model.Sync Model.Instrument Model.Chart Spec.ChartSpec.
Open Scope Z_scope.

(** Parsing with a selection returns exactly the selected tracks that exist in the file, each identical
    to the track an unrestricted parse produces, with metadata, sync track and global events unchanged
    (an empty selection yields no tracks; supersets and pairs absent from the file are fine). *)
Definition C13_select_stmt : Prop :=
  forall c secs ch logs sel, cfg_ok_chart c = true -> NoDup (map fst secs) ->
    from_secs c secs None = Ok (ch, logs) ->
    exists ch' logs', from_secs c secs (Some sel) = Ok (ch', logs') /\
      c_meta ch' = c_meta ch /\ c_sync ch' = c_sync ch /\ c_gev ch' = c_gev ch /\
      (forall i d, lookup_tracks (c_tracks ch') i d =
                   if wanted (Some sel) (i, d) then lookup_tracks (c_tracks ch) i d else None) /\
      (forall i inner, assoc i (c_tracks ch') = Some inner -> inner <> []).

Definition C13_empty_stmt : Prop :=
  forall c secs ch logs, from_secs c secs (Some []) = Ok (ch, logs) -> c_tracks ch = [].

(** An invalid section that is not selected never makes the restricted parse fail: a restricted
    parse succeeds as soon as the non-track sections parse and every SELECTED section builds. *)
Definition C13_select_ok_stmt : Prop :=
  forall c secs want ch0 logs0 B, from_secs c secs (Some []) = Ok (ch0, logs0) ->
    B = st_bpm (c_sync ch0) ->
    ((exists r, from_secs c secs want = Ok r) <-> Forall (builds c B want) secs).

(** Non-interference: replacing the body of one instrument section by arbitrary other content never
    affects the parsed result of another (instrument, difficulty). *)
Definition C13_noninterf_stmt : Prop :=
  forall c s1 tag body body' s2 want ch logs ch' logs', cfg_ok_chart c = true ->
    NoDup (map fst (s1 ++ (tag, body) :: s2)) ->
    (exists p, header_lookup c tag = Some p) ->
    from_secs c (s1 ++ (tag, body) :: s2) want = Ok (ch, logs) ->
    from_secs c (s1 ++ (tag, body') :: s2) want = Ok (ch', logs') ->
    c_meta ch' = c_meta ch /\ c_sync ch' = c_sync ch /\ c_gev ch' = c_gev ch /\
    forall i d, header_lookup c tag <> Some (i, d) ->
      lookup_tracks (c_tracks ch') i d = lookup_tracks (c_tracks ch) i d.

(** … and if that section is not selected the two results are equal outright. *)
Definition C13_unselected_stmt : Prop :=
  forall c s1 tag body body' s2 want p,
    header_lookup c tag = Some p -> wanted want p = false ->
    from_secs c (s1 ++ (tag, body) :: s2) want = from_secs c (s1 ++ (tag, body') :: s2) want.
