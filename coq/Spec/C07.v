(** Spec/C07.v — Instrument-section lines are recognised and decoded exactly. *)
From CP Require Import Base.Prelude Base.Str Base.Regex Base.Cfg Model.Lines Spec.RefRegex.
Open Scope Z_scope.
Open Scope string_scope.

Section S.
Variable c : cfg.
Notation T := (tbl c).

Definition all_ws_p (s : str) : Prop := Forall (fun ch => is_ws T ch = true) s.
Definition digits_p (s : str) : Prop := s <> [] /\ Forall (fun ch => is_digit T ch = true) s.
Definition S_ (s : String.string) : str := of_string s.

(** Canonical shapes (pads of any white space, digit strings of any length incl. leading zeros
    and non-ASCII decimal digits). *)
Definition note_shape (s : str) (t : str) (i : Z) (l : str) : Prop :=
  exists p1 p2, all_ws_p p1 /\ all_ws_p p2 /\ digits_p t /\ digits_p l /\ 0 <= i < 8 /\
    s = p1 ++ t ++ S_ " = N " ++ [Z.to_N (48 + i)] ++ S_ " " ++ l ++ p2.
Definition sp_shape (s : str) (t l : str) : Prop :=
  exists p1 p2, all_ws_p p1 /\ all_ws_p p2 /\ digits_p t /\ digits_p l /\
    s = p1 ++ t ++ S_ " = S 2 " ++ l ++ p2.
(** A word is blank-free and does not end in white space (inner tabs etc. are kept). *)
Definition word_p (w : str) : Prop :=
  Forall (fun ch => ch <> 32%N) w /\ (w = [] \/ exists w' ch, w = w' ++ [ch] /\ is_ws T ch = false).
Definition tev_shape (s : str) (t w : str) : Prop :=
  exists p1 p2, all_ws_p p1 /\ all_ws_p p2 /\ digits_p t /\ word_p w /\
    s = p1 ++ t ++ S_ " = E " ++ w ++ p2.

Definition short (s : str) : Prop := (length s <= max_str_digits)%nat.

(** Acceptance with exactly the written integers … *)
Definition C07_note_accept_stmt : Prop :=
  cfg_ok_instr c = true -> forall s t i l, note_shape s t i l -> short t -> short l ->
    dec c KNote s = Ok (PNote (horner T t 0) i (horner T l 0)).
Definition C07_sp_accept_stmt : Prop :=
  cfg_ok_instr c = true -> forall s t l, sp_shape s t l -> short t -> short l ->
    dec c KSP s = Ok (PSP (horner T t 0) (horner T l 0)).
Definition C07_tev_accept_stmt : Prop :=
  cfg_ok_instr c = true -> forall s t w, tev_shape s t w -> short t ->
    dec c KTev s = Ok (PTev (horner T t 0) w).

(** … and nothing else is ever accepted: the recognisers accept exactly the canonical shapes. *)
Definition C07_note_only_stmt : Prop :=
  cfg_ok_instr c = true -> forall s,
    matchb T (re_note c) s = true <-> exists t i l, note_shape s t i l.
Definition C07_sp_only_stmt : Prop :=
  cfg_ok_instr c = true -> forall s,
    matchb T (re_sp c) s = true <-> exists t l, sp_shape s t l.
Definition C07_tev_only_stmt : Prop :=
  cfg_ok_instr c = true -> forall s,
    matchb T (re_tev c) s = true <-> exists t w, tev_shape s t w.

(** A rejected line produces RegexNotMatchError and no datum. *)
Definition C07_reject_stmt : Prop :=
  forall k s, matchb T (re_of_kind c k) s = false -> dec c k s = Err ERegexNotMatch.

(** No string is accepted by two of the three recognisers (also C14). *)
Definition C07_disjoint_stmt : Prop :=
  cfg_ok_instr c = true -> forall s,
    ~ (matchb T (re_note c) s = true /\ matchb T (re_sp c) s = true) /\
    ~ (matchb T (re_note c) s = true /\ matchb T (re_tev c) s = true) /\
    ~ (matchb T (re_sp c) s = true /\ matchb T (re_tev c) s = true).

(** Decimal strings denote what they say: for ASCII digits [horner] is the usual value. *)
Fixpoint ascii_digits (ds : list nat) : str := map (fun d => N.of_nat (48 + d)) ds.
Fixpoint value_of (ds : list nat) (acc : Z) : Z :=
  match ds with [] => acc | d :: r => value_of r (acc * 10 + Z.of_nat d) end.
Definition C07_decimal_stmt : Prop :=
  tables_ok T = true -> forall ds, Forall (fun d => (d < 10)%nat) ds ->
    horner T (ascii_digits ds) 0 = value_of ds 0.

End S.

(** Reference decoders, independent of the regenerated configuration: the executable spec the
    implementation's own output is judged against. *)
Definition ref_cfg (c : cfg) : cfg :=
  {| tbl := tbl c;
     re_note := ref_note; re_sp := ref_sp; re_tev := ref_tev;
     re_bpm := ref_bpm; re_ts := ref_ts; re_anchor := ref_anchor;
     re_text := ref_text; re_section := ref_section; re_lyric := ref_lyric;
     re_header := ref_header;
     meta_fields := map (fun f => {| mf_name := mf_name f; mf_pascal := mf_pascal f;
                                     mf_re := ref_meta (mf_pascal f) (mf_kind f);
                                     mf_kind := mf_kind f; mf_required := mf_required f;
                                     mf_default := mf_default f |}) (meta_fields c);
     order_instr := [KNote; KSP; KTev]; order_sync := [KBpm; KTs; KAnchor];
     order_events := [KLyric; KSection; KText];
     instr_values := instr_values c; diff_values := diff_values c;
     nti_values := [0; 1; 2; 3; 4; 5; 6; 7]; player2_values := [of_string "bass"; of_string "rhythm"];
     tag_song := of_string "Song"; tag_sync := of_string "SyncTrack"; tag_events := of_string "Events";
     required_tags := [of_string "Song"; of_string "SyncTrack"; of_string "Events"];
     eighth_triplet := 3; default_lower := 4; sp_literal := [50%N];
     autoinsert_tracks := false |}.
