(** Spec/C01.v — Event timestamps equal the exact tempo-map time of their tick. *)
From CP Require Import Base.Prelude Base.Str Base.Float64 Base.Timedelta Model.Sync
  Spec.FloatSpec Spec.C11 Spec.Tempo.
From Coq Require Import Reals.
Open Scope Z_scope.

(** Exact time in microseconds from the tick of the first listed tempo event to tick [t] (assumed at
    or after it): the sum over tempo segments of ticks x 60 / (BPM x resolution). *)
Fixpoint exact_from (res : Z) (tm : list (Z * Z)) (t : Z) : Rdefinitions.R :=
  match tm with
  | [] => 0%R
  | (tk, n) :: rest =>
      match rest with
      | (tk', _) :: _ =>
          if t <? tk' then seg_exact n res (t - tk)
          else (seg_exact n res (tk' - tk) + exact_from res rest t)%R
      | [] => seg_exact n res (t - tk)
      end
  end.

(** Number of tempo segments traversed to reach [t]: governing index + 1. *)
Definition segments (tm : list (Z * Z)) (t : Z) : Z :=
  Zlength_ (filter (fun p => fst p <=? t) tm).

(** The quantifier of the property: resolution >= 1, BPM from 0.001 to 10^6 in 0.001 steps (n in
    1..10^9), strictly increasing tempo ticks from 0 (part of [tempo_wf]), ticks whose exact time is
    below 10^6 s = 10^12 us.  [t < 2^53] keeps every int -> float conversion exact. *)
Definition wf_query (res : Z) (tm : list (Z * Z)) (t : Z) : Prop :=
  1 <= res < 2 ^ 53 /\ Forall (fun p => 1 <= snd p <= 10 ^ 9) tm /\ 0 <= t < 2 ^ 53 /\
  (exact_from res tm t <= 10 ^ 12)%R.

(** The slack: half a microsecond (microsecond rounding) plus one nanosecond of float error per
    tempo segment traversed. *)
Definition slack (k : Z) : Rdefinitions.R := (IZR k * (1 / 2 + 1 / 1000))%R.

Definition C01_query_stmt : Prop :=
  forall B tm t h, tempo_wf B -> matches_tm (evs B) tm -> wf_query (resolution B) tm t ->
    0 <= h <= gov (evs B) t ->
    exists us, timestamp_at_tick B t h = Ok (us, gov (evs B) t) /\
               (Rabs (IZR us - exact_from (resolution B) tm t) <= slack (segments tm t))%R.

(** Tick 0 is exactly time zero. *)
Definition C01_tick0_stmt : Prop :=
  forall B tm, tempo_wf B -> matches_tm (evs B) tm ->
    1 <= resolution B < 2 ^ 53 -> Forall (fun p => 1 <= snd p < 2 ^ 52) tm ->
    timestamp_at_tick B 0 0 = Ok (0, 0).

(** The tempo events' own stored timestamps obey the same bound (they are what [chained] sums). *)
Definition C01_tempo_events_stmt : Prop :=
  forall B tm i e, tempo_wf B -> matches_tm (evs B) tm -> nth_Z (evs B) i = Some e ->
    wf_query (resolution B) tm (b_tick e) ->
    (Rabs (IZR (b_ts e) - exact_from (resolution B) tm (b_tick e)) <= slack i)%R.

(** Consequence for every event of a parsed chart: an event whose stored (timestamp, index) is the
    un-hinted query of its tick (that is C11: [stored_ok]) carries the exact time within the slack. *)
Definition C01_stored_stmt : Prop :=
  forall B tm e, tempo_wf B -> matches_tm (evs B) tm -> wf_query (resolution B) tm (t_tick e) ->
    stored_ok B e ->
    (Rabs (IZR (t_ts e) - exact_from (resolution B) tm (t_tick e)) <= slack (segments tm (t_tick e)))%R.

(** Executable twin over Q used on the implementation's own output: exact time as a rational
    numerator/denominator pair is avoided; the check is done in integers:
    | us * D - N | * 2000 <= k * 1001 * D   where exact = N / D. *)
Fixpoint exact_frac (res : Z) (tm : list (Z * Z)) (t : Z) : Z * Z :=      (* (num, den), den > 0 *)
  match tm with
  | [] => (0, 1)
  | (tk, n) :: rest =>
      let seg k := (k * 60000000000, n * res) in
      match rest with
      | (tk', _) :: _ =>
          if t <? tk' then seg (t - tk)
          else let '(a, b) := seg (tk' - tk) in let '(c, d) := exact_frac res rest t in (a * d + c * b, b * d)
      | [] => seg (t - tk)
      end
  end.

Definition within_slack (res : Z) (tm : list (Z * Z)) (t us : Z) : bool :=
  let '(N, D) := exact_frac res tm t in
  let k := segments tm t in
  Z.abs (us * D - N) * 2000 <=? k * 1001 * D.
