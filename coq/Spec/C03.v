(** Spec/C03.v — Sustains, end tick, end time and last-note-end are faithful to the lines. *)
From CP Require Import Base.Prelude Base.Str Base.Regex Base.Cfg Base.Float64 Base.Timedelta
  Model.Lines Model.Sync Model.Instrument.
Open Scope Z_scope.

Definition is_open (d : ndata) : Prop := nd_idx d = IDX_OPEN.
Definition is_lane (d : ndata) : Prop := 0 <= nd_idx d <= 4.
Definition is_flag (d : ndata) : Prop := nd_idx d = IDX_FORCED \/ nd_idx d = IDX_TAP.

(** Open note: the open line's own length, wherever the line stands among the flag lines. *)
Definition C03_open_stmt : Prop :=
  forall g d, In d g -> is_open d ->
    (forall d', In d' g -> is_open d' -> nd_sus d' = nd_sus d) ->
    complex_sustain g = Ok (SInt (nd_sus d)).

(** Flags only (no lane line, no open line): sustain 0. *)
Definition C03_flags_only_stmt : Prop :=
  forall g, (forall d, In d g -> is_flag d) -> complex_sustain g = Ok (SInt 0).

(** All active lanes agree: one number. *)
Definition C03_uniform_stmt : Prop :=
  forall g n, (forall d, In d g -> ~ is_open d) ->
    (exists d, In d g /\ is_lane d) ->
    (forall d, In d g -> is_lane d -> nd_sus d = n) ->
    complex_sustain g = Ok (SInt n).

(** Active lanes disagree (each lane written at most once): the five-slot tuple holding every
    active lane's own length and nothing for inactive lanes. *)
Definition one_line_per_lane (g : list ndata) : Prop :=
  forall d d', In d g -> In d' g -> is_lane d -> nd_idx d = nd_idx d' -> nd_sus d = nd_sus d'.

Definition C03_tuple_stmt : Prop :=
  forall g, (forall d, In d g -> ~ is_open d) -> one_line_per_lane g ->
    (exists d d', In d g /\ In d' g /\ is_lane d /\ is_lane d' /\ nd_sus d <> nd_sus d') ->
    exists l, complex_sustain g = Ok (STuple l) /\ length l = 5%nat /\
      forall k, (k < 5)%nat ->
        (forall s, nth k l None = Some s <-> exists d, In d g /\ nd_idx d = Z.of_nat k /\ nd_sus d = s).

(** Flag lines never contribute: deleting them changes nothing. *)
Definition C03_flags_ignored_stmt : Prop :=
  forall g, complex_sustain (filter (fun d => negb ((nd_idx d =? IDX_FORCED) || (nd_idx d =? IDX_TAP))) g)
            = complex_sustain g.

(** Longest sustain. *)
Definition sustain_values (s : sustain) : list Z :=
  match s with
  | SInt n => [n]
  | STuple l => flat_map (fun o => match o with Some v => [v] | None => [] end) l
  end.
Definition C03_longest_stmt : Prop :=
  forall s, sustain_values s <> [] ->
    exists m, longest_sustain s = Ok m /\ In m (sustain_values s) /\
              forall v, In v (sustain_values s) -> v <= m.

(** complex_sustain never produces a tuple without a value, so longest_sustain never raises on
    a built event. *)
Definition C03_longest_total_stmt : Prop :=
  forall g s, complex_sustain g = Ok s -> sustain_values s <> [].

(** Events of a built track: the sustain is that of the group, the end tick is tick + longest and
    the end timestamp is the query at the end tick with the start's index as hint. *)
Definition C03_event_stmt : Prop :=
  forall c B sps g prev hint cursor e hint' cursor',
    note_from_group c B sps g prev hint cursor = Ok (e, hint', cursor') ->
    complex_sustain g = Ok (n_sustain e) /\
    exists longest idx', longest_sustain (n_sustain e) = Ok longest /\
      timestamp_at_tick B (tick_add (n_tick e) longest) (t_idx (n_at e)) = Ok (n_end_ts e, idx').

(** last_note_end_timestamp: the maximum end timestamp; absent exactly for a note-less track. *)
Definition C03_last_stmt : Prop :=
  forall tr,
    (last_note_end tr = None <-> it_notes tr = []) /\
    (forall m, last_note_end tr = Some m ->
       (exists e, In e (it_notes tr) /\ n_end_ts e = m) /\
       (forall e, In e (it_notes tr) -> n_end_ts e <= m)).

(** The pinned tree (before the repair) only looked at the first line of a tick. *)
Definition C03_refuted_pinned_stmt : Prop :=
  exists g d, In d g /\ is_open d /\
    (forall d', In d' g -> is_open d' -> nd_sus d' = nd_sus d) /\
    complex_sustain_pinned g <> Ok (SInt (nd_sus d)).

(** Executable spec of a group's sustain, written from the property text. *)
Definition spec_sustain (g : list (Z * Z)) : sustain :=   (* (index, length) pairs of one tick *)
  match find (fun p => fst p =? 7) g with
  | Some p => SInt (snd p)
  | None =>
      let slot k := match find (fun p => fst p =? k) (rev g) with Some p => Some (snd p) | None => None end in
      let slots := map slot [0; 1; 2; 3; 4] in
      match flat_map (fun o => match o with Some v => [v] | None => [] end) slots with
      | [] => SInt 0
      | v :: vs => if forallb (Z.eqb v) vs then SInt v else STuple slots
      end
  end.
