(** Spec/FloatSpec.v — the floating-point facts the timing properties rest on (C01, C04, C08,
    C12).  Statements only; proofs in Proofs/Float*.v. *)
From CP Require Import Base.Prelude Base.Str Base.Float64 Base.Timedelta Model.Sync.
From Coq Require Import Reals.
From Flocq Require Import Core.Core IEEE754.BinarySingleNaN.
Open Scope Z_scope.

(** Duration of [k] ticks at tempo [b] and resolution [R], in whole microseconds, exactly as
    every timestamp computation obtains it: the four float operations of
    [seconds_from_ticks_at_bpm] followed by [timedelta(seconds=…)]. *)
Definition seg_us (b : f64) (R k : Z) : result Z :=
  let* s := seconds k b R in td_of_seconds s.

(** The tempo written as the integer [n] (thousandths of a BPM). *)
Definition bpm_of_n (n : Z) : f64 := fdiv (of_Z n) (of_Z 1000).

(** Round to nearest even in binary64. *)
Definition RN (x : Rdefinitions.R) : Rdefinitions.R := round radix2 (FLT_exp (-1074) 53) ZnearestE x.

(** Exact duration in microseconds of k ticks at n/1000 BPM and resolution R:
    k * 60 / ((n/1000) * R) seconds. *)
Definition seg_exact (n R k : Z) : Rdefinitions.R := (IZR k * 60000000000 / (IZR n * IZR R))%R.

(** *** C08: every positive numeral below 2^52 decodes to the nearest double of n/1000, and the
    three-decimal validator accepts it. *)
Definition C08_bpm_float_stmt : Prop :=
  forall n, 1 <= n < 2 ^ 52 ->
    is_finite (bpm_of_n n) = true /\
    B2R (bpm_of_n n) = RN (IZR n / 1000) /\
    f_le (bpm_of_n n) fzero = false /\
    py_round3 (bpm_of_n n) = Ok (bpm_of_n n) /\
    check_bpm_3dp (bpm_of_n n) = Ok tt.

(** The pinned tree's two-step decode rejects some numerals (witness 1118). *)
Definition C08_refuted_pinned_stmt : Prop :=
  exists n, 1 <= n < 10 ^ 7 /\
    (let* w := py_float_of_int (n / 1000) in
     let* d := py_truediv_int (n mod 1000) 1000 in
     check_bpm_3dp (fadd w d)) = Err EValue.

(** *** C04: round(R / 3) is R/3 to the nearest tick. *)
Definition C04_threshold_float_stmt : Prop :=
  forall R, 1 <= R < 2 ^ 50 -> note_duration_to_ticks R 3 = Ok ((2 * R + 3) / 6).

(** *** C01: one segment is accurate to half a microsecond plus the float slack (< 1 ns). *)
Definition dur_acc_stmt : Prop :=
  forall n R k,
    1 <= n <= 10 ^ 9 -> 1 <= R < 2 ^ 53 -> 0 <= k < 2 ^ 53 ->
    (seg_exact n R k <= 10 ^ 12)%R ->
    exists us, seg_us (bpm_of_n n) R k = Ok us /\ 0 <= us /\
               (Rabs (IZR us - seg_exact n R k) <= 1 / 2 + 1 / 1000)%R.

Definition dur_zero_stmt : Prop :=
  forall n R, 1 <= n < 2 ^ 52 -> 0 < R < 2 ^ 53 -> seg_us (bpm_of_n n) R 0 = Ok 0.

(** *** C12: a segment's duration is a monotone function of the tick count, for every tempo
    and resolution for which it is defined at all (no accuracy needed, so sub-microsecond ticks
    are included). *)
Definition dur_mono_stmt : Prop :=
  forall b R k1 k2 u1 u2, 0 <= k1 <= k2 ->
    seg_us b R k1 = Ok u1 -> seg_us b R k2 = Ok u2 -> u1 <= u2.

Definition dur_nonneg_stmt : Prop :=
  forall b R k u, seg_us b R k = Ok u -> 0 <= u.

(** Strictness: when one tick lasts at least two microseconds (n * R <= 3 * 10^10). *)
Definition dur_strict_stmt : Prop :=
  forall n R k1 k2 u1 u2,
    1 <= n <= 10 ^ 9 -> 1 <= R < 2 ^ 53 -> n * R <= 30000000000 ->
    0 <= k1 < k2 -> k2 < 2 ^ 53 -> (seg_exact n R k2 <= 10 ^ 12)%R ->
    seg_us (bpm_of_n n) R k1 = Ok u1 -> seg_us (bpm_of_n n) R k2 = Ok u2 -> u1 < u2.
