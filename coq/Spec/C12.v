(** Spec/C12.v — Time is a non-decreasing function of tick across the whole chart. *)
From CP Require Import Base.Prelude Base.Str Base.Float64 Base.Timedelta Model.Sync Model.Instrument
  Spec.FloatSpec Spec.C11 Spec.Tempo.
From Coq Require Import Reals.
Open Scope Z_scope.

(** For EVERY well-formed tempo list (any tempos and resolution for which the two queries succeed at
    all: extreme accelerations, sub-microsecond ticks included) time is non-decreasing in the tick. *)
Definition C12_mono_stmt : Prop :=
  forall B a b ua ub, tempo_wf B -> 0 <= a <= b ->
    ts_of B a = Ok ua -> ts_of B b = Ok ub -> ua <= ub.

(** Whenever a single tick lasts at least two microseconds at every tempo of the chart
    (n * resolution <= 3 * 10^10, i.e. BPM x resolution <= 3 * 10^7) the function is strictly increasing
    (on the range where the accuracy lemma applies: times below 10^6 s, ticks below 2^53). *)
Definition C12_strict_stmt : Prop :=
  forall B tm a b ua ub, tempo_wf B -> matches_tm (evs B) tm ->
    1 <= resolution B < 2 ^ 53 ->
    Forall (fun p => 1 <= snd p <= 10 ^ 9 /\ snd p * resolution B <= 30000000000) tm ->
    0 <= a < b -> b < 2 ^ 53 ->
    Forall (fun p => seg_exact (snd p) (resolution B) b <= 10 ^ 12)%R tm ->
    ts_of B a = Ok ua -> ts_of B b = Ok ub -> ua < ub.

(** Equal ticks have identical timestamps in every track: every stored timestamp is a function of
    the tick (C11). *)
Definition C12_equal_ticks_stmt : Prop :=
  forall B e1 e2, stored_ok B e1 -> stored_ok B e2 -> t_tick e1 = t_tick e2 ->
    t_ts e1 = t_ts e2 /\ t_idx e1 = t_idx e2.

(** Events of any tracks: a <= b in ticks implies a <= b in time. *)
Definition C12_events_stmt : Prop :=
  forall B e1 e2, tempo_wf B -> stored_ok B e1 -> stored_ok B e2 ->
    0 <= t_tick e1 <= t_tick e2 -> t_ts e1 <= t_ts e2.

(** A note's end timestamp is never before its start. *)
Definition C12_note_stmt : Prop :=
  forall B e longest, tempo_wf B -> note_stored_ok B e ->
    longest_sustain (n_sustain e) = Ok longest -> 0 <= longest -> 0 <= n_tick e ->
    t_ts (n_at e) <= n_end_ts e.

(** Executable check on the implementation's output: a list of (tick, microseconds) pairs sorted by
    tick is non-decreasing in time, equal ticks have equal times, and strictly increasing when
    [strict] is set. *)
Fixpoint mono_b (strict : bool) (l : list (Z * Z)) : bool :=
  match l with
  | (t1, u1) :: (((t2, u2) :: _) as rest) =>
      (if t1 =? t2 then u1 =? u2 else if strict then u1 <? u2 else u1 <=? u2) && mono_b strict rest
  | _ => true
  end.
