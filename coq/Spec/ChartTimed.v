(** Spec/ChartTimed.v — chart-level consequences of the tempo theorems: every timed point of a parsed
    chart stores the un-hinted query of its tick (C11), hence carries the exact tempo-map time within the
    slack (C01) and is ordered with every other event of any track (C12). *)
From CP Require Import Base.Prelude Base.Str Base.Regex Base.Cfg Base.Float64 Base.Timedelta
  Model.Lines Model.Sync Model.Instrument Model.Chart Spec.C11 Spec.Tempo Spec.ChartSpec.
Open Scope Z_scope.

Definition track_points (tr : itrack) : list timed :=
  map n_at (it_notes tr) ++ map sp_at (it_sps tr) ++ map te_at (it_tevs tr).
Definition chart_tracks (ch : chart) : list itrack := flat_map (fun p => map snd (snd p)) (c_tracks ch).
(** Time-signature, text, section, lyric, note (start), star-power and track events of every track. *)
Definition chart_points (ch : chart) : list timed :=
  map ts_at (st_ts (c_sync ch))
  ++ map ge_at (g_text (c_gev ch)) ++ map ge_at (g_section (c_gev ch)) ++ map ge_at (g_lyric (c_gev ch))
  ++ flat_map track_points (chart_tracks ch).
Definition chart_notes (ch : chart) : list note_event := flat_map it_notes (chart_tracks ch).

(** Every successfully parsed chart: the tempo list satisfies the invariant, every timed point stores
    the un-hinted query for its tick, every note's end time is the un-hinted query at tick + longest
    sustain, and every tempo event stores its own index. *)
Definition C11_chart_stmt : Prop :=
  forall c secs want ch logs, from_secs c secs want = Ok (ch, logs) ->
    let B := st_bpm (c_sync ch) in
    tempo_wf B /\ wf_bpm B /\
    Forall (stored_ok B) (chart_points ch) /\
    Forall (note_stored_ok B) (chart_notes ch) /\
    (forall i e, nth_Z (evs B) i = Some e -> b_idx e = i).

(** The same through [from_file] on any text. *)
Definition C11_file_stmt : Prop :=
  forall c text want ch logs, from_file c text want = Ok (ch, logs) ->
    let B := st_bpm (c_sync ch) in
    tempo_wf B /\ Forall (stored_ok B) (chart_points ch) /\ Forall (note_stored_ok B) (chart_notes ch).

(** Equal ticks have identical timestamps across all tracks; a <= b in ticks implies a <= b in time. *)
Definition C12_chart_stmt : Prop :=
  forall c text want ch logs, from_file c text want = Ok (ch, logs) ->
    forall e1 e2, In e1 (chart_points ch) -> In e2 (chart_points ch) ->
      (t_tick e1 = t_tick e2 -> t_ts e1 = t_ts e2) /\
      (0 <= t_tick e1 <= t_tick e2 -> t_ts e1 <= t_ts e2).
