(** Spec/ChartNotes.v — chart-level forms of the note properties C02–C05: what holds of EVERY track of
    EVERY successfully parsed chart, through [from_file]. *)
From CP Require Import Base.Prelude Base.Str Base.Regex Base.Cfg Base.Float64 Base.Timedelta
  Model.Lines Model.Sync Model.Instrument Model.Chart
  Spec.C02 Spec.C03 Spec.C04 Spec.C05 Spec.C11 Spec.ChartSpec Spec.ChartTimed.
From Coq Require Import Sorted.
Open Scope Z_scope.

(** The note lines of a section in file order, as the dispatcher hands them to the builder. *)
Definition note_lines (c : cfg) (body : list str) : result (list ndata) :=
  let* outs := dispatch c (order_instr c) body in Ok (map ndata_of (data_of KNote outs)).

(** Every track of a parsed chart was built from the body of the section with its header. *)
Definition track_of_section (c : cfg) (B : bpm_events) (tr : itrack) : Prop :=
  exists body ws, itrack_from_lines c (it_instr tr) (it_diff tr) body B = Ok (tr, ws).

Definition C02_chart_stmt : Prop :=
  forall c text want ch logs, from_file c text want = Ok (ch, logs) ->
    forall tr, In tr (chart_tracks ch) ->
      exists body ws nl, itrack_from_lines c (it_instr tr) (it_diff tr) body (st_bpm (c_sync ch)) = Ok (tr, ws) /\
        note_lines c body = Ok nl /\
        (* one event per group of contiguous equal-tick note lines, with the group's tick and lanes *)
        Forall2 (fun g e => n_tick e = group_tick g /\ n_note e = lanes_of g) (group_by_tick nl) (it_notes tr) /\
        (* well-formed section: strictly increasing ticks, one event per distinct tick *)
        (Sorted Z.le (map nd_tick nl) -> StronglySorted Z.lt (map n_tick (it_notes tr))).

Definition C03_chart_stmt : Prop :=
  forall c text want ch logs, from_file c text want = Ok (ch, logs) ->
    forall tr, In tr (chart_tracks ch) ->
      exists body ws nl, itrack_from_lines c (it_instr tr) (it_diff tr) body (st_bpm (c_sync ch)) = Ok (tr, ws) /\
        note_lines c body = Ok nl /\
        Forall2 (fun g e => complex_sustain g = Ok (n_sustain e)) (group_by_tick nl) (it_notes tr) /\
        Forall (fun e => exists longest idx', longest_sustain (n_sustain e) = Ok longest /\
                  timestamp_at_tick (st_bpm (c_sync ch)) (n_tick e + longest) 0 = Ok (n_end_ts e, idx')) (it_notes tr).

Definition C04_chart_stmt : Prop :=
  forall c text want ch logs, eighth_triplet c = 3 -> from_file c text want = Ok (ch, logs) ->
    resolution (st_bpm (c_sync ch)) < 2 ^ 50 ->
    forall tr, In tr (chart_tracks ch) ->
      exists body ws nl, itrack_from_lines c (it_instr tr) (it_diff tr) body (st_bpm (c_sync ch)) = Ok (tr, ws) /\
        note_lines c body = Ok nl /\
        hopo_chain2 (resolution (st_bpm (c_sync ch))) None (group_by_tick nl) (it_notes tr).

Definition C05_chart_stmt : Prop :=
  forall c text want ch logs, from_file c text want = Ok (ch, logs) ->
    forall tr, In tr (chart_tracks ch) ->
      Sorted Z.le (map sp_tick (it_sps tr)) -> Sorted Z.le (map n_tick (it_notes tr)) ->
      Forall (fun e => n_sp e = spec_sp (it_sps tr) (n_tick e)) (it_notes tr).
