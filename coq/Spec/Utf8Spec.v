(** Spec/Utf8Spec.v — the codec is a bijection between valid byte strings and texts of Unicode scalar
    values; the utf-8-sig BOM; and C06's "leading UTF-8 byte-order mark when read by path" at byte level. *)
From CP Require Import Base.Prelude Base.Str Base.Regex Base.Cfg Base.Utf8 Model.Chart Model.ChartBytes Spec.ChartSpec.
Open Scope N_scope.

Definition utf8_roundtrip_stmt : Prop :=
  forall s, forallb scalar s = true -> utf8_decode (utf8_encode s) = Ok s.
Definition utf8_canonical_stmt : Prop :=
  forall b s, utf8_decode b = Ok s -> forallb scalar s = true /\ utf8_encode s = b.
Definition utf8_bytes_stmt : Prop :=
  forall s, forallb scalar s = true -> Forall (fun x => x < 256) (utf8_encode s).
Definition utf8_sig_bom_stmt : Prop :=
  forall s, forallb scalar s = true -> utf8_sig_decode (UTF8_BOM ++ utf8_encode s) = Ok s.
Definition utf8_sig_nobom_stmt : Prop :=
  forall s, forallb scalar s = true -> utf8_sig_decode (utf8_encode s) = Ok (strip_bom s).

(** C06 at byte level: a file with or without a UTF-8 byte-order mark, with LF or CRLF line endings, read by
    path, parses as the LF text read from an already decoded stream. *)
Definition C06_bom_bytes_stmt : Prop :=
  forall c lines want (bom : bool) nl, nl = NL_LF \/ nl = NL_CRLF ->
    Forall (Forall (fun ch => ch <> CR /\ ch <> LF)) lines ->
    (match lines with (ch :: _) :: _ => ch <> BOM | _ => True end) ->
    forallb scalar (concat lines) = true ->
    from_filepath_bytes c ((if bom then UTF8_BOM else []) ++ utf8_encode (join nl lines)) want
    = from_file c (join NL_LF lines) want.

(** Undecodable bytes are a ValueError (UnicodeDecodeError), never anything else. *)
Definition utf8_error_kind_stmt : Prop :=
  forall b e, utf8_decode b = Err e -> e = EValue.
