(** Spec/Render.v — rendering of abstract section contents to canonical chart lines, and the capstone
    statements that connect the line-level theorems (C07–C09), the dispatcher (C14) and the framer (C06)
    to the track-level theorems (C02–C05, C11): for rendered input the builders receive exactly the
    abstract data. *)
From CP Require Import Base.Prelude Base.Str Base.Regex Base.Cfg Model.Lines Model.Sync Model.Instrument Model.Chart
  Spec.RefRegex Spec.C07 Spec.ChartSpec.
Open Scope Z_scope.
Open Scope string_scope.

(** ASCII decimal numeral of a non-negative integer (most significant digit first). *)
Fixpoint digits_fuel (fuel : nat) (n : Z) (acc : str) : str :=
  match fuel with
  | O => acc
  | S fuel' =>
      let d := Z.to_N (48 + n mod 10) in
      if n <? 10 then d :: acc else digits_fuel fuel' (n / 10) (d :: acc)
  end.
Definition numeral (n : Z) : str := digits_fuel (S (Z.to_nat (Z.log2 (Z.max n 1)))) n [].

(** Abstract lines of the three kinds of section. *)
Inductive iline := INote (tick idx sus : Z) | ISP (tick sus : Z) | ITev (tick : Z) (word : str).
Inductive sline := SBpm (tick n : Z) | STs (tick up : Z) (lo : option Z) | SAnchor (tick us : Z).
Inductive eline := ELyric (tick : Z) (v : str) | ESection (tick : Z) (v : str) | EText (tick : Z) (v : str).

Definition S_ (s : String.string) : str := of_string s.

(** Canonical rendering with an arbitrary white-space pad in front (Moonscraper writes two blanks). *)
Definition render_iline (pad : str) (l : iline) : str :=
  match l with
  | INote t i s => pad ++ numeral t ++ S_ " = N " ++ numeral i ++ S_ " " ++ numeral s
  | ISP t s => pad ++ numeral t ++ S_ " = S 2 " ++ numeral s
  | ITev t w => pad ++ numeral t ++ S_ " = E " ++ w
  end.
Definition render_sline (pad : str) (l : sline) : str :=
  match l with
  | SBpm t n => pad ++ numeral t ++ S_ " = B " ++ numeral n
  | STs t u None => pad ++ numeral t ++ S_ " = TS " ++ numeral u
  | STs t u (Some lo) => pad ++ numeral t ++ S_ " = TS " ++ numeral u ++ S_ " " ++ numeral lo
  | SAnchor t us => pad ++ numeral t ++ S_ " = A " ++ numeral us
  end.
Definition render_eline (pad : str) (l : eline) : str :=
  match l with
  | ELyric t v => pad ++ numeral t ++ S_ " = E ""lyric " ++ v ++ [QUOTE]
  | ESection t v => pad ++ numeral t ++ S_ " = E ""section " ++ v ++ [QUOTE]
  | EText t v => pad ++ numeral t ++ S_ " = E """ ++ v ++ [QUOTE]
  end.

(** The parsed datum each abstract line stands for. *)
Definition data_iline (l : iline) : kind * pdata :=
  match l with
  | INote t i s => (KNote, PNote t i s)
  | ISP t s => (KSP, PSP t s)
  | ITev t w => (KTev, PTev t w)
  end.
Definition data_sline (l : sline) : kind * pdata :=
  match l with
  | SBpm t n => (KBpm, PBpm t (numeral n))
  | STs t u lo => (KTs, PTs t u lo)
  | SAnchor t us => (KAnchor, PAnchor t us)
  end.
Definition data_eline (l : eline) : kind * pdata :=
  match l with
  | ELyric t v => (KLyric, PGlobal KLyric t v)
  | ESection t v => (KSection, PGlobal KSection t v)
  | EText t v => (KText, PGlobal KText t v)
  end.

(** Well-formedness of abstract lines (all numbers non-negative; note index 0..7; words blank-free and
    not ending in white space; event texts without newline, text events without quotes and not starting
    with the lyric / section key words). *)
Definition wf_iline (c : cfg) (l : iline) : Prop :=
  match l with
  | INote t i s => 0 <= t /\ 0 <= i < 8 /\ 0 <= s
  | ISP t s => 0 <= t /\ 0 <= s
  | ITev t w => 0 <= t /\ word_p c w
  end.
Definition wf_sline (l : sline) : Prop :=
  match l with
  | SBpm t n => 0 <= t /\ 0 <= n
  | STs t u lo => 0 <= t /\ 0 <= u /\ match lo with Some x => 0 <= x | None => True end
  | SAnchor t us => 0 <= t /\ 0 <= us
  end.
Definition wf_eline (l : eline) : Prop :=
  match l with
  | ELyric t v | ESection t v => 0 <= t /\ Forall (fun ch => ch <> LF) v
  | EText t v => 0 <= t /\ Forall (fun ch => ch <> LF) v /\ Forall (fun ch => ch <> QUOTE) v /\
                 prefixb (S_ "lyric ") v = false /\ prefixb (S_ "section ") v = false
  end.

(** *** Statements *)
Definition numeral_value_stmt : Prop :=
  forall T n, tables_ok T = true -> 0 <= n ->
    numeral n <> [] /\ Forall (fun ch => is_digit T ch = true) (numeral n) /\ horner T (numeral n) 0 = n /\
    (length (numeral n) <= max_str_digits)%nat \/ 10 ^ 4300 <= n.

(** Every rendered line is claimed by its own kind with exactly its data, whatever the pad. *)
Definition render_instr_stmt : Prop :=
  forall c pad ls, cfg_ok_instr c = true -> Forall (fun ch => is_ws (tbl c) ch = true) pad ->
    Forall (wf_iline c) ls -> Forall (fun l => match l with INote t i s => t < 10 ^ 4000 /\ s < 10 ^ 4000 | ISP t s => t < 10 ^ 4000 /\ s < 10 ^ 4000 | ITev t _ => t < 10 ^ 4000 end) ls ->
    list_eqb kind_eqb (order_instr c) [KNote; KSP; KTev] = true ->
    dispatch c (order_instr c) (map (render_iline pad) ls)
    = Ok (map (fun l => Claimed (fst (data_iline l)) (snd (data_iline l))) ls).
Definition render_sync_stmt : Prop :=
  forall c pad ls, cfg_ok_sync c = true -> Forall (fun ch => is_ws (tbl c) ch = true) pad ->
    Forall wf_sline ls -> Forall (fun l => match l with SBpm t n => t < 10 ^ 4000 /\ n < 10 ^ 4000 | STs t u lo => t < 10 ^ 4000 /\ u < 10 ^ 4000 /\ match lo with Some x => x < 10 ^ 4000 | None => True end | SAnchor t us => t < 10 ^ 4000 /\ us < 10 ^ 4000 end) ls ->
    list_eqb kind_eqb (order_sync c) [KBpm; KTs; KAnchor] = true ->
    dispatch c (order_sync c) (map (render_sline pad) ls)
    = Ok (map (fun l => Claimed (fst (data_sline l)) (snd (data_sline l))) ls).
Definition render_events_stmt : Prop :=
  forall c pad ls, cfg_ok_events c = true -> Forall (fun ch => is_ws (tbl c) ch = true) pad ->
    Forall wf_eline ls -> Forall (fun l => match l with ELyric t _ | ESection t _ | EText t _ => t < 10 ^ 4000 end) ls ->
    dispatch c (order_events c) (map (render_eline pad) ls)
    = Ok (map (fun l => Claimed (fst (data_eline l)) (snd (data_eline l))) ls).

(** Hence the note builder receives exactly the abstract note lines, in file order, whatever S / E lines
    are interleaved. *)
Definition notes_of (ls : list iline) : list ndata :=
  flat_map (fun l => match l with INote t i s => [{| nd_tick := t; nd_idx := i; nd_sus := s |}] | _ => [] end) ls.
Definition render_note_data_stmt : Prop :=
  forall c pad ls outs, dispatch c (order_instr c) (map (render_iline pad) ls)
      = Ok (map (fun l => Claimed (fst (data_iline l)) (snd (data_iline l))) ls) ->
    outs = map (fun l => Claimed (fst (data_iline l)) (snd (data_iline l))) ls ->
    map ndata_of (data_of KNote outs) = notes_of ls /\ warnings_of outs = [].

(** A whole file rendered from well-formed sections (LF or CRLF) is parsed as [from_secs] of exactly
    those sections. *)
Definition render_file_stmt : Prop :=
  forall c secs nl want, cfg_ok_chart c = true -> wf_secs secs ->
    nl = NL_LF \/ nl = NL_CRLF ->
    Forall (fun s => no_breaks (tbl c) (fst s) /\ Forall (no_breaks (tbl c)) (snd s)) secs ->
    from_file c (join nl (lines_of secs)) want = from_secs c secs want.
