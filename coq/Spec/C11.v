(** Spec/C11.v — Lookup hints are invisible; timestamps are never silently misplaced. *)
From CP Require Import Base.Prelude Base.Str Base.Regex Base.Cfg Base.Float64 Base.Timedelta
  Model.Lines Model.Sync Model.Instrument.
From Coq Require Import Sorted.
Open Scope Z_scope.

(** Index of the last tempo event at or before [t], defined without any scan:
    (number of events with tick <= t) - 1.  It is -1 when [t] precedes every event. *)
Definition gov (es : list bpm_event) (t : Z) : Z :=
  Zlength_ (filter (fun e => b_tick e <=? t) es) - 1.

Definition sorted_strict (es : list bpm_event) : Prop := StronglySorted Z.lt (map b_tick es).

(** A well-formed tempo list: what [mk_bpm_events]/[build_bpm_list] guarantee. *)
Definition wf_bpm (B : bpm_events) : Prop :=
  sorted_strict (evs B) /\ (exists e0 rest, evs B = e0 :: rest /\ b_tick e0 = 0).

(** Any hint not beyond the governing event gives the governing index; any hint beyond it
    (including hints past the end, and any hint when [t] precedes the first event) is rejected
    with ValueError. *)
Definition C11_hint_stmt : Prop :=
  forall es t h, sorted_strict es -> es <> [] -> 0 <= h ->
    (h <= gov es t -> index_of_proximal es t h = Ok (gov es t)) /\
    (gov es t < h -> index_of_proximal es t h = Err EValue).

(** Hence the whole query (timestamp and index, or the error) does not depend on the hint. *)
Definition C11_ts_stmt : Prop :=
  forall B t h, sorted_strict (evs B) -> evs B <> [] -> 0 <= h -> h <= gov (evs B) t ->
    timestamp_at_tick B t h = timestamp_at_tick B t 0.

Definition C11_ts_reject_stmt : Prop :=
  forall B t h, sorted_strict (evs B) -> evs B <> [] -> gov (evs B) t < h ->
    timestamp_at_tick B t h = Err EValue.

(** Whatever non-negative hint is used, a query that succeeds returns what the un-hinted query
    returns (so a wrong hint can only raise, never misplace a time). *)
Definition C11_any_ok_stmt : Prop :=
  forall B t h r, sorted_strict (evs B) -> evs B <> [] -> 0 <= h ->
    timestamp_at_tick B t h = Ok r -> timestamp_at_tick B t 0 = Ok r.

(** A successful query returns the governing index. *)
Definition C11_index_stmt : Prop :=
  forall B t h ts idx, sorted_strict (evs B) -> 0 <= h ->
    timestamp_at_tick B t h = Ok (ts, idx) -> idx = gov (evs B) t.

Definition stored_ok (B : bpm_events) (e : timed) : Prop :=
  timestamp_at_tick B (t_tick e) 0 = Ok (t_ts e, t_idx e).

(** Body lines in ANY order: the hinted fold either fails or returns only events whose stored
    (timestamp, index) equal the un-hinted query for their tick. *)
Definition C11_threaded_stmt : Prop :=
  forall B ticks out, sorted_strict (evs B) -> evs B <> [] ->
    build_timed B ticks None = Ok out ->
    map t_tick out = ticks /\ Forall (stored_ok B) out.

(** When the fold fails, the un-hinted query fails in the same way for some tick of the list, or
    the failure is the ValueError of a hint lying beyond a governing event. *)
Definition C11_threaded_err_stmt : Prop :=
  forall B ticks e, sorted_strict (evs B) -> evs B <> [] ->
    build_timed B ticks None = Err e ->
    e = EValue \/ exists t, In t ticks /\ timestamp_at_tick B t 0 = Err e.

(** Notes: start time and end time (the start's index is handed over as the end's hint). *)
Definition note_stored_ok (B : bpm_events) (e : note_event) : Prop :=
  stored_ok B (n_at e) /\
  exists longest idx', longest_sustain (n_sustain e) = Ok longest /\
     timestamp_at_tick B (n_tick e + longest) 0 = Ok (n_end_ts e, idx').

Definition C11_notes_stmt : Prop :=
  forall c B sps groups notes, sorted_strict (evs B) -> evs B <> [] ->
    build_notes c B sps groups None 0 0 = Ok notes ->
    Forall (note_stored_ok B) notes.

(** Every successfully built tempo list is well formed. *)
Definition C11_built_wf_stmt : Prop :=
  forall T datas R B, build_bpm_events T datas R = Ok B -> wf_bpm B /\ 0 < resolution B.

(** And the tempo events themselves store the un-hinted query of their own tick. *)
Definition C11_bpm_self_stmt : Prop :=
  forall T datas R B, build_bpm_events T datas R = Ok B ->
    forall i e, nth_Z (evs B) i = Some e -> b_idx e = i /\ gov (evs B) (b_tick e) = i.

(** Executable checks on the implementation's own output (queries re-run on the implementation
    are supplied by the harness as part of the case). *)
Definition timed_matches (q : result (Z * Z)) (e : timed) : bool :=
  match q with Ok (ts, idx) => (ts =? t_ts e) && (idx =? t_idx e) | Err _ => false end.
