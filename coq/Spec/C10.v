(** Spec/C10.v — Metadata fields decode independently, verbatim, with documented defaults. *)
From CP Require Import Base.Prelude Base.Str Base.Regex Base.Cfg Model.Lines Model.Chart
  Spec.RefRegex Spec.C07.
From Coq Require Import Permutation.
Open Scope Z_scope.
Open Scope string_scope.

(** The documented table of the 24 [Song] fields: attribute name, name in the file, kind, required,
    default.  Written from the documentation, independently of the source. *)
Definition doc_table : list (String.string * String.string * meta_kind * bool * meta_val) :=
  [ ("resolution", "Resolution", MInt, true, MVNone);
    ("offset", "Offset", MInt, false, MVInt 0);
    ("player2", "Player2", MPlayer2, false, MVEnum (of_string "bass"));
    ("difficulty", "Difficulty", MInt, false, MVInt 0);
    ("preview_start", "PreviewStart", MInt, false, MVInt 0);
    ("preview_end", "PreviewEnd", MInt, false, MVInt 0);
    ("genre", "Genre", MStr, false, MVStr (of_string "rock"));
    ("media_type", "MediaType", MStr, false, MVStr (of_string "cd"));
    ("name", "Name", MStr, false, MVNone);
    ("artist", "Artist", MStr, false, MVNone);
    ("charter", "Charter", MStr, false, MVNone);
    ("album", "Album", MStr, false, MVNone);
    ("year", "Year", MStr, false, MVNone);
    ("music_stream", "MusicStream", MStr, false, MVNone);
    ("guitar_stream", "GuitarStream", MStr, false, MVNone);
    ("rhythm_stream", "RhythmStream", MStr, false, MVNone);
    ("bass_stream", "BassStream", MStr, false, MVNone);
    ("drum_stream", "DrumStream", MStr, false, MVNone);
    ("drum2_stream", "Drum2Stream", MStr, false, MVNone);
    ("drum3_stream", "Drum3Stream", MStr, false, MVNone);
    ("drum4_stream", "Drum4Stream", MStr, false, MVNone);
    ("vocal_stream", "VocalStream", MStr, false, MVNone);
    ("keys_stream", "KeysStream", MStr, false, MVNone);
    ("crowd_stream", "CrowdStream", MStr, false, MVNone) ].

Definition meta_kind_eqb (a b : meta_kind) : bool :=
  match a, b with MInt, MInt | MStr, MStr | MPlayer2, MPlayer2 => true | _, _ => false end.
Definition mv_eqb (a b : meta_val) : bool :=
  match a, b with
  | MVInt x, MVInt y => x =? y
  | MVStr x, MVStr y => str_eqb x y
  | MVNone, MVNone => true
  | MVEnum x, MVEnum y => str_eqb x y
  | _, _ => false
  end.

Definition field_matches_doc (f : meta_field)
           (d : String.string * String.string * meta_kind * bool * meta_val) : bool :=
  let '(n, p, k, r, dv) := d in
  str_eqb (mf_name f) (of_string n) && str_eqb (mf_pascal f) (of_string p)
  && meta_kind_eqb (mf_kind f) k && Bool.eqb (mf_required f) r && (r || mv_eqb (mf_default f) dv).

Fixpoint forall2b {A B} (p : A -> B -> bool) (a : list A) (b : list B) : bool :=
  match a, b with
  | [], [] => true
  | x :: xs, y :: ys => p x y && forall2b p xs ys
  | _, _ => false
  end.

Definition C10_items (c : cfg) : list (String.string * bool) :=
  meta_items c ++
  [ ("the looked-up fields are the 24 documented ones, in the documented order, with the documented kinds, requiredness and defaults",
      forall2b field_matches_doc (meta_fields c) doc_table) ].
Definition cfg_ok_C10 (c : cfg) : bool := items_ok (C10_items c).

Section S.
Variable c : cfg.
Notation T := (tbl c).

Definition accepts (f : meta_field) (l : str) : bool := matchb T (mf_re f) l.
Definition qs (b : bool) : str := if b then [QUOTE] else [].

(** [p1 Name = q1 v q2 p2] with optional quotes q1, q2 and white-space pads. *)
Definition meta_shape (name : str) (q1 : bool) (v : str) (q2 : bool) (s : str) : Prop :=
  exists p1 p2, all_ws_p c p1 /\ all_ws_p c p2 /\
    s = p1 ++ name ++ S_ " = " ++ qs q1 ++ v ++ qs q2 ++ p2.

Definition value_char_ok (k : meta_kind) (ch : N) : Prop :=
  match k with
  | MInt => is_digit T ch = true
  | MStr => ch <> LF
  | MPlayer2 => ch <> QUOTE
  end.

(** Exact language of every field recogniser. *)
Definition C10_only_stmt : Prop :=
  cfg_ok_meta c = true -> forall f, In f (meta_fields c) -> forall s,
    accepts f s = true <->
    exists q1 v q2, meta_shape (mf_pascal f) q1 v q2 s /\ v <> [] /\ Forall (value_char_ok (mf_kind f)) v.

(** String fields: one pair of surrounding quotes is removed and the inner text is kept verbatim —
    inner quotes, '=', other fields' names, leading/trailing blanks, non-ASCII (anything but LF). *)
Definition C10_str_verbatim_stmt : Prop :=
  cfg_ok_meta c = true -> forall f, In f (meta_fields c) -> mf_kind f = MStr ->
    forall s v, meta_shape (mf_pascal f) true v true s -> v <> [] -> Forall (fun ch => ch <> LF) v ->
      accepts f s = true /\ meta_capture c f s = Some v /\ meta_process c f v = Ok (MVStr v).

(** Numeric fields become integers (with or without quotes). *)
Definition C10_int_stmt : Prop :=
  cfg_ok_meta c = true -> forall f, In f (meta_fields c) -> mf_kind f = MInt ->
    forall s ds q1 q2, meta_shape (mf_pascal f) q1 ds q2 s -> digits_p c ds -> short ds ->
      accepts f s = true /\ meta_capture c f s = Some ds /\ meta_process c f ds = Ok (MVInt (horner T ds 0)).

(** Player2 becomes its enumeration member; any other word is a ValueError. *)
Definition C10_player2_stmt : Prop :=
  cfg_ok_meta c = true -> forall f, In f (meta_fields c) -> mf_kind f = MPlayer2 ->
    forall v, (v = of_string "bass" \/ v = of_string "rhythm" -> meta_process c f v = Ok (MVEnum v)) /\
              (v <> of_string "bass" -> v <> of_string "rhythm" -> meta_process c f v = Err EValue).
Definition C10_player2_capture_stmt : Prop :=
  cfg_ok_meta c = true -> forall f, In f (meta_fields c) -> mf_kind f = MPlayer2 ->
    forall s v q, meta_shape (mf_pascal f) q v q s -> v <> [] -> Forall (fun ch => ch <> QUOTE) v ->
      (q = false -> Forall (fun ch => is_ws T ch = false) v) ->
      accepts f s = true /\ meta_capture c f s = Some v.

(** No string is claimed by two different fields: a field's line never influences another field. *)
Definition C10_disjoint_stmt : Prop :=
  cfg_ok_meta c = true -> forall f1 f2, In f1 (meta_fields c) -> In f2 (meta_fields c) ->
    mf_pascal f1 <> mf_pascal f2 -> forall s, ~ (accepts f1 s = true /\ accepts f2 s = true).

(** A field's value is decoded from its own first accepted line, or is its default; lines the field
    does not accept can be inserted, deleted or moved without changing it. *)
Definition decode_line (f : meta_field) (l : str) : result meta_val :=
  match meta_capture c f l with Some v => meta_process c f v | None => Err EUnmodelled end.
Definition C10_field_stmt : Prop :=
  forall f lines, meta_field_value c f lines =
    match find (accepts f) lines with
    | Some l => decode_line f l
    | None => if mf_required f then Err EMissingRequiredField else Ok (mf_default f)
    end.
Definition C10_foreign_line_stmt : Prop :=
  forall f l1 l l2, accepts f l = false ->
    meta_field_value c f (l1 ++ l :: l2) = meta_field_value c f (l1 ++ l2).

(** Order independence: with at most one line per field, any permutation of the lines gives the same
    metadata (or the same error). *)
Definition one_line_per_field (lines : list str) : Prop :=
  forall f, In f (meta_fields c) -> (length (filter (accepts f) lines) <= 1)%nat.
Definition C10_perm_stmt : Prop :=
  forall lines lines', one_line_per_field lines -> Permutation lines lines' ->
    meta_parse c lines = meta_parse c lines'.

(** Absent optional fields take their documented defaults; an absent Resolution raises
    MissingRequiredField (it is looked up first, so no other error can precede it). *)
Definition C10_defaults_stmt : Prop :=
  cfg_ok_C10 c = true -> forall lines m, meta_parse c lines = Ok m ->
    forall n p k r dv, In (n, p, k, r, dv) doc_table -> r = false ->
      (forall f, In f (meta_fields c) -> mf_pascal f = of_string p -> find (accepts f) lines = None) ->
      assoc (of_string n) m = Some dv.
Definition C10_required_stmt : Prop :=
  cfg_ok_C10 c = true -> forall lines,
    (forall f, In f (meta_fields c) -> mf_pascal f = of_string "Resolution" -> find (accepts f) lines = None) ->
    meta_parse c lines = Err EMissingRequiredField.

(** The result lists exactly the 24 attributes, in the documented order. *)
Definition C10_shape_stmt : Prop :=
  cfg_ok_C10 c = true -> forall lines m, meta_parse c lines = Ok m ->
    map fst m = map (fun d => of_string (fst (fst (fst (fst d))))) doc_table.

End S.
