(** Spec/C17.v — Parsing is a pure function of the text, free of history and schedule.

    The package's only cross-call state is four [functools.lru_cache] tables (Note.is_chord,
    NoteTrackIndex.is_5_note, _refined_sustain_tuple, note_duration_to_ticks).  The model makes the
    caches explicit: a cache holds (key, value) pairs; a memoised call looks its key up and otherwise
    computes the function and stores the result; entries may be evicted at any time (this covers LRU
    eviction without committing to its policy).  A client (a parse) is a program in a free monad over
    memoised calls.  The theorems say that, whatever the history of earlier programs (including ones
    that ended in an error), whatever the interleaving of several programs on one shared cache (one
    memoised call being atomic, which is what CPython's lru_cache provides under the GIL), and
    whatever is evicted when, every program returns exactly what it returns with no cache at all. *)
From CP Require Import Base.Prelude.
Open Scope Z_scope.

Section Memo.
(** Tables, keys and values are abstract; [f t k] is the function the table [t] memoises. *)
Variable table : Type.
Variable key : Type.
Variable value : Type.
Variable table_eqb : table -> table -> bool.
Variable key_eqb : key -> key -> bool.
Hypothesis table_eqb_eq : forall a b, table_eqb a b = true <-> a = b.
Hypothesis key_eqb_eq : forall a b, key_eqb a b = true <-> a = b.
Variable f : table -> key -> value.

Definition cache := list (table * key * value).

Fixpoint lookup (c : cache) (t : table) (k : key) : option value :=
  match c with
  | [] => None
  | (t', k', v) :: c' => if table_eqb t t' && key_eqb k k' then Some v else lookup c' t k
  end.

(** Every entry is a value of the memoised function at its key. *)
Definition CacheInv (c : cache) : Prop := forall t k v, lookup c t k = Some v -> v = f t k.

(** One memoised call: hit, or miss + compute + store. *)
Definition memo_call (c : cache) (t : table) (k : key) : cache * value :=
  match lookup c t k with
  | Some v => (c, v)
  | None => ((t, k, f t k) :: c, f t k)
  end.

(** Eviction of arbitrary entries: any sub-list selected by a predicate. *)
Definition evict (keep : table * key * value -> bool) (c : cache) : cache := filter keep c.

(** Programs. *)
Inductive prog (A : Type) : Type :=
| Ret (a : A)
| Memo (t : table) (k : key) (cont : value -> prog A).
Arguments Ret {A} a.
Arguments Memo {A} t k cont.

Fixpoint run_pure {A} (p : prog A) : A :=
  match p with Ret a => a | Memo t k cont => run_pure (cont (f t k)) end.

(** Sequential run against a cache, with an arbitrary eviction before every call: [ev] is consulted at
    each step. *)
Fixpoint run_cached {A} (ev : nat -> table * key * value -> bool) (n : nat) (p : prog A) (c : cache) : cache * A :=
  match p with
  | Ret a => (c, a)
  | Memo t k cont =>
      let '(c', v) := memo_call (evict (ev n) c) t k in run_cached ev (S n) (cont v) c'
  end.

(** A history: programs run one after the other on the same cache. *)
Fixpoint run_history {A} (ev : nat -> table * key * value -> bool) (ps : list (prog A)) (c : cache) : cache * list A :=
  match ps with
  | [] => (c, [])
  | p :: ps' => let '(c', a) := run_cached ev O p c in
                let '(c'', l) := run_history ev ps' c' in (c'', a :: l)
  end.

(** Interleaving: a pool of threads, each a program; the schedule names which thread performs its
    next memoised call (a thread that has returned ignores further turns). *)
Definition step_thread {A} (c : cache) (p : prog A) : cache * prog A :=
  match p with
  | Ret a => (c, Ret a)
  | Memo t k cont => let '(c', v) := memo_call c t k in (c', cont v)
  end.
Fixpoint update_nth {X} (n : nat) (x : X) (l : list X) : list X :=
  match l, n with
  | [], _ => []
  | _ :: r, O => x :: r
  | h :: r, S n' => h :: update_nth n' x r
  end.
Fixpoint run_sched {A} (ev : nat -> table * key * value -> bool) (sched : list nat) (n : nat)
         (pool : list (prog A)) (c : cache) : cache * list (prog A) :=
  match sched with
  | [] => (c, pool)
  | i :: sched' =>
      match nth_error pool i with
      | None => run_sched ev sched' (S n) pool c
      | Some p => let '(c', p') := step_thread (evict (ev n) c) p in
                  run_sched ev sched' (S n) (update_nth i p' pool) c'
      end
  end.
Definition finished {A} (p : prog A) : option A := match p with Ret a => Some a | Memo _ _ _ => None end.

(** *** Statements *)
Definition C17_inv_call_stmt : Prop :=
  forall c t k, CacheInv c -> CacheInv (fst (memo_call c t k)) /\ snd (memo_call c t k) = f t k.
Definition C17_inv_evict_stmt : Prop := forall keep c, CacheInv c -> CacheInv (evict keep c).

(** One program, any starting cache satisfying the invariant, any eviction: the pure result. *)
Definition C17_cached_stmt : Prop :=
  forall A ev n (p : prog A) c, CacheInv c ->
    CacheInv (fst (run_cached ev n p c)) /\ snd (run_cached ev n p c) = run_pure p.

(** Any history (programs that end in an error value are just programs returning that value). *)
Definition C17_history_stmt : Prop :=
  forall A ev (ps : list (prog A)) c, CacheInv c ->
    CacheInv (fst (run_history ev ps c)) /\ snd (run_history ev ps c) = map run_pure ps.

(** Any schedule: every thread that has finished returned its pure result, and every unfinished thread
    still has the same pure result ahead of it. *)
Definition C17_schedule_stmt : Prop :=
  forall A ev sched n (pool : list (prog A)) c, CacheInv c ->
    CacheInv (fst (run_sched ev sched n pool c)) /\
    map run_pure (snd (run_sched ev sched n pool c)) = map run_pure pool.

End Memo.
