(** Spec/C14.v — Unrecognised lines are skipped locally; each line is claimed at most once. *)
From CP Require Import Base.Prelude Base.Str Base.Regex Base.Cfg Model.Lines.
From Coq Require Import Permutation.
Open Scope Z_scope.

Definition rejected_by_all (c : cfg) (order : list kind) (l : str) : Prop :=
  Forall (fun k => dec c k l = Err ERegexNotMatch) order.

(** Every line yields exactly one outcome, in file order: either one datum of one kind of the
    order (the first kind that does not reject it), or one "unparsable" report carrying the line
    itself when every kind rejects it. *)
Definition outcome_ok (c : cfg) (order : list kind) (l : str) (o : line_outcome) : Prop :=
  match o with
  | Unparsable l' => l' = l /\ rejected_by_all c order l
  | Claimed k d => In k order /\ dec c k l = Ok d
  end.

Definition C14_conservation_stmt : Prop :=
  forall c order lines outs, dispatch c order lines = Ok outs ->
    Forall2 (outcome_ok c order) lines outs.

(** Counting form: data + warnings = lines. *)
Definition all_data (outs : list line_outcome) : list (kind * pdata) :=
  flat_map (fun o => match o with Claimed k d => [(k, d)] | Unparsable _ => [] end) outs.
Definition C14_count_stmt : Prop :=
  forall c order lines outs, dispatch c order lines = Ok outs ->
    (length (all_data outs) + length (warnings_of outs) = length lines)%nat.

(** Locality: an unparsable line inserted anywhere contributes exactly one warning, at its own
    position, and changes nothing else (so deleting or moving such lines is also harmless). *)
Definition C14_local_stmt : Prop :=
  forall c order l1 j l2, rejected_by_all c order j ->
    dispatch c order (l1 ++ j :: l2) =
      (let* o1 := dispatch c order l1 in
       let* o2 := dispatch c order l2 in
       Ok (o1 ++ Unparsable j :: o2)).

Definition C14_append_stmt : Prop :=
  forall c order l1 l2,
    dispatch c order (l1 ++ l2) =
      (let* o1 := dispatch c order l1 in let* o2 := dispatch c order l2 in Ok (o1 ++ o2)).

Definition C14_data_unchanged_stmt : Prop :=
  forall c order l1 j l2 outs outs', rejected_by_all c order j ->
    dispatch c order (l1 ++ j :: l2) = Ok outs -> dispatch c order (l1 ++ l2) = Ok outs' ->
    (forall k, data_of k outs = data_of k outs') /\
    (length (warnings_of outs) = S (length (warnings_of outs')))%nat.

(** No string is accepted by two recognisers of the same section. *)
Definition disjoint_kinds (c : cfg) (ks : list kind) : Prop :=
  forall s k1 k2, In k1 ks -> In k2 ks -> k1 <> k2 ->
    ~ (matchb (tbl c) (re_of_kind c k1) s = true /\ matchb (tbl c) (re_of_kind c k2) s = true).

(** If the kinds of an order are pairwise disjoint the outcome does not depend on the order in
    which they are tried. *)
Definition C14_order_indep_stmt : Prop :=
  forall c order order' lines, disjoint_kinds c order -> Permutation order order' ->
    dispatch c order lines = dispatch c order' lines.
