(** Spec/C19.v — A parsed chart is an immutable value under all read-only use. *)
From CP Require Import Base.Prelude Base.Str Base.Regex Base.Cfg Model.Chart Model.ChartState.
Open Scope Z_scope.

(** With a plain mapping no sequence of read-only operations (failing rate queries and look-ups of
    absent instruments included) changes the observation or twin equality. *)
Definition C19_immutable_stmt : Prop :=
  forall ops st, obs (fst (run false st ops)) = obs st /\ fst (run false st ops) = st.

(** … and every operation's result is the one it has on the untouched chart: results are history-free. *)
Definition C19_history_free_stmt : Prop :=
  forall ops st, snd (run false st ops) = map (fun o => snd (step false st o)) ops.

Definition C19_twin_stmt : Prop :=
  forall ops ch, Forall (fun r => match r with RBool b => b = true | _ => True end)
                        (snd (run false (init_state ch) ops)).

(** Event and track objects reject attribute assignment. *)
Definition C19_frozen_stmt : Prop :=
  forall auto st, step auto st OSetAttr = (st, RErr EFrozen).

(** The pinned tree stored an auto-inserting mapping: a look-up of an absent instrument (or a failing
    rate query) changes the key set and twin equality.  Repaired by fix 9b5729a. *)
Definition C19_refuted_autoinsert_stmt : Prop :=
  exists ch i, obs (fst (run true (init_state ch) [OGetItem i])) <> obs (init_state ch) /\
               snd (run true (init_state ch) [OGetItem i; OEqTwin]) = [RKeys []; RBool false].

(** On the current source: the stored mapping does not auto-insert. *)
Definition cfg_ok_C19 (c : cfg) : bool := negb (autoinsert_tracks c).
