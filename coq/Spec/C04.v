(** Spec/C04.v — Strum / HOPO / tap state follows the natural-HOPO rule and flags. *)
From CP Require Import Base.Prelude Base.Str Base.Regex Base.Cfg Base.Float64 Base.Timedelta
  Model.Lines Model.Sync Model.Instrument.
Open Scope Z_scope.

(** resolution / 3 rounded to the nearest tick (R/3 is never a tie). *)
Definition thr (R : Z) : Z := (2 * R + 3) / 6.

Definition spec_hopo (boundary tick : Z) (note : list bool) (tap forced : bool)
           (prev : option (Z * list bool)) : hopo :=
  if tap then TAP
  else match prev with
       | None => STRUM
       | Some (ptick, pnote) =>
           let natural := negb (is_chord note) && negb (lanes_eqb note pnote)
                          && (tick - ptick <=? boundary) in
           if xorb natural forced then HOPO else STRUM
       end.

(** The decision table, for any boundary the duration function returns. *)
Definition C04_rule_stmt : Prop :=
  forall c R tick note tap forced ptick pnote b,
    note_duration_to_ticks R (eighth_triplet c) = Ok b ->
    compute_hopo c R tick note tap forced (Some (ptick, pnote))
    = Ok (spec_hopo b tick note tap forced (Some (ptick, pnote))).

Definition C04_first_stmt : Prop :=
  forall c R tick note tap,
    compute_hopo c R tick note tap false None = Ok (spec_hopo 0 tick note tap false None).

(** The documented rejection: a forced first note. *)
Definition C04_first_forced_stmt : Prop :=
  forall c R tick note tap, compute_hopo c R tick note tap true None = Err EValue.

(** The float computation round(resolution / 3) is resolution/3 to the nearest tick. *)
Definition C04_threshold_stmt : Prop :=
  forall R, 1 <= R < 2 ^ 50 -> note_duration_to_ticks R 3 = Ok (thr R).

(** Closed form for every resolution in range. *)
Definition C04_closed_stmt : Prop :=
  forall c R tick note tap forced ptick pnote,
    eighth_triplet c = 3 -> 1 <= R < 2 ^ 50 ->
    compute_hopo c R tick note tap forced (Some (ptick, pnote))
    = Ok (spec_hopo (thr R) tick note tap forced (Some (ptick, pnote))).

(** chord = more than one active lane *)
Definition C04_chord_stmt : Prop :=
  forall n, is_chord n = true <-> (2 <= length (filter (fun b => b) n))%nat.

(** Track level: every event carries the decision for (its predecessor, itself). *)
Fixpoint hopo_chain (R : Z) (prev : option note_event) (notes : list note_event)
         (tapf : note_event -> bool * bool) : Prop :=
  match notes with
  | [] => True
  | e :: rest =>
      n_hopo e = spec_hopo (thr R) (n_tick e) (n_note e) (fst (tapf e)) (snd (tapf e))
                   (match prev with Some p => Some (n_tick p, n_note p) | None => None end)
      /\ hopo_chain R (Some e) rest tapf
  end.

Definition group_flags (g : list ndata) : bool * bool :=
  (existsb (fun d => nd_idx d =? IDX_TAP) g, existsb (fun d => nd_idx d =? IDX_FORCED) g).

Fixpoint hopo_chain2 (R : Z) (prev : option note_event) (gs : list (list ndata)) (notes : list note_event) : Prop :=
  match gs, notes with
  | g :: gs', e :: rest =>
      n_hopo e = spec_hopo (thr R) (n_tick e) (n_note e) (fst (group_flags g)) (snd (group_flags g))
                   (match prev with Some p => Some (n_tick p, n_note p) | None => None end)
      /\ hopo_chain2 R (Some e) gs' rest
  | [], [] => True
  | _, _ => False
  end.

Definition C04_track_stmt : Prop :=
  forall c B sps groups notes,
    eighth_triplet c = 3 -> 1 <= resolution B < 2 ^ 50 ->
    build_notes c B sps groups None 0 0 = Ok notes ->
    hopo_chain2 (resolution B) None groups notes.

(** Executable check on the implementation's output; [flags] gives (tap, forced) per event. *)
Fixpoint spec_b_chain (R : Z) (prev : option note_event) (notes : list note_event) (flags : list (bool * bool)) : bool :=
  match notes, flags with
  | e :: rest, (tap, forced) :: frest =>
      hopo_eqb (n_hopo e)
        (spec_hopo (thr R) (n_tick e) (n_note e) tap forced
           (match prev with Some p => Some (n_tick p, n_note p) | None => None end))
      && spec_b_chain R (Some e) rest frest
  | [], [] => true
  | _, _ => false
  end.
