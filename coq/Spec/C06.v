(** Spec/C06.v — Sections are framed and routed to the right parser and track key. *)
From CP Require Import Base.Prelude Base.Str Base.Regex Base.Cfg Base.Float64 Base.Timedelta
  Model.Lines Model.Sync Model.Instrument Model.Chart Spec.ChartSpec.
From Coq Require Import Permutation.
Open Scope Z_scope.

(** Framing: each section's parser receives exactly the body lines between that section's braces.
    General form (duplicate headers overwrite, as Python dict assignment does) and the well-formed
    corollary. *)
Definition C06_frame_gen_stmt : Prop :=
  forall c secs, cfg_ok_chart c = true ->
    Forall (fun s => tag_ok (fst s) /\ body_ok (snd s)) secs ->
    partition c (lines_of secs) = Ok (fold_left (fun d s => dict_set (fst s) (snd s) d) secs []).
Definition C06_frame_stmt : Prop :=
  forall c secs, cfg_ok_chart c = true -> wf_secs secs -> partition c (lines_of secs) = Ok secs.

(** LF versus CRLF: both renderings split into the same lines. *)
Definition C06_split_stmt : Prop :=
  forall T lines nl, is_break T LF = true -> is_break T CR = true ->
    nl = NL_LF \/ nl = NL_CRLF -> Forall (no_breaks T) lines ->
    splitlines T (join nl lines) = lines.

(** A leading byte-order mark and CRLF line endings, when read by path: what the utf-8-sig codec and
    the universal-newline layer hand to [from_file] is the LF text. *)
Definition C06_bom_stmt : Prop :=
  forall c lines want bom nl, nl = NL_LF \/ nl = NL_CRLF ->
    Forall (Forall (fun ch => ch <> CR /\ ch <> LF)) lines ->
    (match lines with (ch :: _) :: _ => ch <> BOM | _ => True end) ->
    from_filepath c ((if bom : bool then [BOM] else []) ++ join nl lines) want
    = from_file c (join NL_LF lines) want.

(** Routing: Song feeds metadata, SyncTrack tempo and meter, Events global events. *)
Definition C06_route_fixed_stmt : Prop :=
  forall c secs want ch logs, from_secs c secs want = Ok (ch, logs) ->
    exists song sync_lines ev_lines R w1 w2,
      assoc (tag_song c) secs = Some song /\ meta_parse c song = Ok (c_meta ch) /\
      meta_resolution (c_meta ch) = Ok R /\
      assoc (tag_sync c) secs = Some sync_lines /\ sync_from_lines c R sync_lines = Ok (c_sync ch, w1) /\
      assoc (tag_events c) secs = Some ev_lines /\
      globals_from_lines c ev_lines (st_bpm (c_sync ch)) = Ok (c_gev ch, w2) /\
      route c (st_bpm (c_sync ch)) want secs [] (map LUnparsable w1 ++ map LUnparsable w2)
        = Ok (c_tracks ch, logs).

(** … and each of the 40 "<Difficulty><Instrument>" headers feeds the track stored under precisely
    that (instrument, difficulty) key and labelled with it. *)
Definition C06_route_tracks_stmt : Prop :=
  forall c B want secs tracks logs0 logs, cfg_ok_chart c = true -> NoDup (map fst secs) ->
    route c B want secs [] logs0 = Ok (tracks, logs) ->
    (forall i d tr, lookup_tracks tracks i d = Some tr <->
       exists tag body ws, In (tag, body) secs /\ header_lookup c tag = Some (i, d) /\
         wanted want (i, d) = true /\ itrack_from_lines c i d body B = Ok (tr, ws)) /\
    (forall i d tr, lookup_tracks tracks i d = Some tr -> it_instr tr = i /\ it_diff tr = d) /\
    (forall i inner, assoc i tracks = Some inner -> inner <> []).

Definition C06_header_stmt : Prop :=
  forall c, cfg_ok_chart c = true ->
    forall i d, In i (instr_values c) -> In d (diff_values c) -> header_lookup c (d ++ i) = Some (i, d).

(** Routing succeeds exactly when every wanted instrument section builds. *)
Definition C06_route_ok_stmt : Prop :=
  forall c B want secs logs0,
    (exists r, route c B want secs [] logs0 = Ok r) <-> Forall (builds c B want) secs.

(** Independence of section order. *)
Definition C06_perm_stmt : Prop :=
  forall c secs secs' want, cfg_ok_chart c = true -> NoDup (map fst secs) -> Permutation secs secs' ->
    parse_equiv (from_secs c secs want) (from_secs c secs' want).

(** Unrecognised sections are reported and ignored. *)
Definition C06_unknown_stmt : Prop :=
  forall c B want s1 tag body s2 acc logs,
    header_lookup c tag = None -> mem_str tag (required_tags c) = false ->
    route c B want (s1 ++ (tag, body) :: s2) acc logs =
      (let* (acc1, logs1) := route c B want s1 acc logs in
       route c B want s2 acc1 (logs1 ++ [LUnhandled tag])).
Definition C06_unknown_chart_stmt : Prop :=
  forall c s1 tag body s2 want ch logs, cfg_ok_chart c = true ->
    NoDup (map fst (s1 ++ (tag, body) :: s2)) ->
    header_lookup c tag = None -> mem_str tag (required_tags c) = false ->
    from_secs c (s1 ++ s2) want = Ok (ch, logs) ->
    exists logs', from_secs c (s1 ++ (tag, body) :: s2) want = Ok (ch, logs') /\
                  Permutation logs' (LUnhandled tag :: logs).

(** A file lacking any of the three required sections is rejected with ValueError. *)
Definition C06_required_stmt : Prop :=
  forall c secs want t, In t (required_tags c) -> assoc t secs = None -> from_secs c secs want = Err EValue.
