(** Spec/C09.v — Global events are classified lyric / section / text with verbatim values. *)
From CP Require Import Base.Prelude Base.Str Base.Regex Base.Cfg Model.Lines Spec.RefRegex Spec.C07.
Open Scope Z_scope.
Open Scope string_scope.

Section S.
Variable c : cfg.
Notation T := (tbl c).

Definition no_lf (v : str) : Prop := Forall (fun ch => ch <> LF) v.
Definition no_quote (v : str) : Prop := Forall (fun ch => ch <> QUOTE) v.

(** [p1 tick = E "<prefix><v>" p2] *)
Definition quoted_shape (prefix : String.string) (s t v : str) : Prop :=
  exists p1 p2, all_ws_p c p1 /\ all_ws_p c p2 /\ digits_p c t /\
    s = p1 ++ t ++ S_ " = E """ ++ S_ prefix ++ v ++ [QUOTE] ++ p2.

(** Lyric and section events carry the remainder verbatim: inner quotes, blanks, '=', brackets
    and non-ASCII text included (anything but a newline). *)
Definition C09_lyric_stmt : Prop :=
  cfg_ok_events c = true -> forall s t v, quoted_shape "lyric " s t v -> no_lf v -> short t ->
    try_kinds c (order_events c) s = Ok (Claimed KLyric (PGlobal KLyric (horner T t 0) v)).
Definition C09_section_stmt : Prop :=
  cfg_ok_events c = true -> forall s t v, quoted_shape "section " s t v -> no_lf v -> short t ->
    try_kinds c (order_events c) s = Ok (Claimed KSection (PGlobal KSection (horner T t 0) v)).

(** Any other quoted text free of inner quotes is a text event carrying the whole text. *)
Definition C09_text_stmt : Prop :=
  cfg_ok_events c = true -> forall s t v, quoted_shape "" s t v -> no_quote v -> no_lf v ->
    prefixb (S_ "lyric ") v = false -> prefixb (S_ "section ") v = false -> short t ->
    try_kinds c (order_events c) s = Ok (Claimed KText (PGlobal KText (horner T t 0) v)).

(** The three recognisers accept exactly these shapes. *)
Definition C09_lyric_only_stmt : Prop :=
  cfg_ok_events c = true -> forall s,
    matchb T (re_lyric c) s = true <-> exists t v, quoted_shape "lyric " s t v /\ no_lf v.
Definition C09_section_only_stmt : Prop :=
  cfg_ok_events c = true -> forall s,
    matchb T (re_section c) s = true <-> exists t v, quoted_shape "section " s t v /\ no_lf v.
Definition C09_text_only_stmt : Prop :=
  cfg_ok_events c = true -> forall s,
    matchb T (re_text c) s = true <-> exists t v, quoted_shape "" s t v /\ no_quote v.

(** A line is never both a lyric and a section. *)
Definition C09_lyric_section_disjoint_stmt : Prop :=
  cfg_ok_events c = true -> forall s,
    ~ (matchb T (re_lyric c) s = true /\ matchb T (re_section c) s = true).

(** Each line lands in at most one list; the three lists are the file-order subsequences of the
    lines claimed by each kind. *)
Definition C09_partition_stmt : Prop :=
  forall lines outs, dispatch c (order_events c) lines = Ok outs ->
    forall k, data_of k outs =
      flat_map (fun l => match try_kinds c (order_events c) l with
                         | Ok (Claimed k' d) => if kind_eqb k k' then [d] else []
                         | _ => [] end) lines.

End S.
