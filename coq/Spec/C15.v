(** Spec/C15.v — Untrustworthy tempo data is rejected loudly, never turned into times. *)
From CP Require Import Base.Prelude Base.Str Base.Regex Base.Cfg Base.Float64 Base.Timedelta
  Model.Lines Model.Sync Spec.C11.
From Coq Require Import Sorted.
Open Scope Z_scope.

(** The tempo list of a chart is never built from untrustworthy data. *)
Definition untrustworthy (datas : list (Z * str)) (R : Z) : Prop :=
  R <= 0 \/ datas = [] \/ (exists d rest, datas = d :: rest /\ fst d <> 0) \/
  ~ StronglySorted Z.lt (map fst datas).

Definition C15_never_ok_stmt : Prop :=
  forall T datas R, untrustworthy datas R -> forall B, build_bpm_events T datas R <> Ok B.

(** …and the failure is a ValueError whenever each tempo numeral by itself decodes and
    validates (no numeral is outside the modelled range; discharged by C08 for n < 2^52). *)
Definition numeral_ok (T : tables) (d : Z * str) : Prop :=
  exists b, decode_bpm T (snd d) = Ok b /\ check_bpm_3dp b = Ok tt.

Definition C15_reject_stmt : Prop :=
  forall T datas R, untrustworthy datas R -> Forall (numeral_ok T) datas ->
    build_bpm_events T datas R = Err EValue \/ build_bpm_events T datas R = Err EOverflow.
(** (OverflowError can only precede the ValueError when an earlier, well-ordered tempo event lies
    beyond the float or timedelta range — ticks above 10^300 or times above 999999999 days; the
    bounded regime of C18 excludes it.) *)

(** With ticks and resolution small enough that no conversion can overflow and the first
    corruption is met at the first or second tempo event, the error is exactly ValueError. *)
Definition C15_reject_R_stmt : Prop :=
  forall T datas R, R <= 0 -> Forall (numeral_ok T) datas ->
    build_bpm_events T datas R = Err EValue.

(** No time signature at tick 0 (or none at all): the sync track is rejected. *)
Definition C15_ts_stmt : Prop :=
  forall c R lines st ws, sync_from_lines c R lines = Ok (st, ws) ->
    exists t0 rest, st_ts st = t0 :: rest /\ t_tick (ts_at t0) = 0.

(** Whatever the hint, a query that returns a time is governed by a strictly positive tempo and
    asks for a non-negative tick at or after the first tempo event. *)
Definition C15_query_stmt : Prop :=
  forall B t h ts idx, timestamp_at_tick B t h = Ok (ts, idx) ->
    exists p, nth_Z (evs B) idx = Some p /\ f_le (b_bpm p) fzero = false /\ b_tick p <= t
              /\ 0 < resolution B.

Definition C15_zero_tempo_stmt : Prop :=
  forall B t h, wf_bpm B -> 0 <= h ->
    (exists p, nth_Z (evs B) (gov (evs B) t) = Some p /\ f_le (b_bpm p) fzero = true) ->
    timestamp_at_tick B t h = Err EValue.

Definition C15_negative_stmt : Prop :=
  forall B t h, wf_bpm B -> 0 <= h -> t < 0 -> timestamp_at_tick B t h = Err EValue.
