(** Spec/C05.v — Star-power membership of notes is exact and half-open. *)
From CP Require Import Base.Prelude Base.Str Base.Regex Base.Cfg Base.Float64 Base.Timedelta
  Model.Lines Model.Sync Model.Instrument.
From Coq Require Import Sorted.
Open Scope Z_scope.

(** Half-open coverage: phrase tick <= t < phrase tick + phrase length. *)
Definition covers (p : special_event) (t : Z) : bool :=
  (sp_tick p <=? t) && (t <? sp_tick p + sp_sus p).

(** Index of the first phrase of the list covering [t] (independent of any cursor). *)
Fixpoint first_cover_from (ps : list special_event) (i : Z) (t : Z) : option Z :=
  match ps with
  | [] => None
  | p :: ps' => if covers p t then Some i else first_cover_from ps' (i + 1) t
  end.
Definition spec_sp (ps : list special_event) (t : Z) : option Z := first_cover_from ps 0 t.

(** The cursor threaded over a sequence of note ticks, exactly as the note builder does. *)
Fixpoint run_cursor (sps : list special_event) (ticks : list Z) (cursor : Z) : result (list (option Z)) :=
  match ticks with
  | [] => Ok []
  | t :: ts =>
      let* (o, c') := compute_sp sps t cursor in
      let* os := run_cursor sps ts c' in
      Ok (o :: os)
  end.

(** All phrase lists ordered by start tick (adjacent, nested, overlapping, zero-length, any
    lengths), all non-decreasing note tick sequences: the cursor computes exactly [spec_sp],
    and never raises. *)
Definition C05_cursor_stmt : Prop :=
  forall (sps : list special_event) (ticks : list Z),
    Sorted Z.le (map sp_tick sps) -> Sorted Z.le ticks ->
    run_cursor sps ticks 0 = Ok (map (spec_sp sps) ticks).

(** Track level: every note event of a successfully built track carries [spec_sp] of its tick. *)
Definition C05_track_stmt : Prop :=
  forall c B sps groups notes,
    Sorted Z.le (map sp_tick sps) ->
    build_notes c B sps groups None 0 0 = Ok notes ->
    Sorted Z.le (map n_tick notes) ->
    Forall (fun e => n_sp e = spec_sp sps (n_tick e)) notes.

Definition C05_from_lines_stmt : Prop :=
  forall c instr diff lines B tr ws,
    itrack_from_lines c instr diff lines B = Ok (tr, ws) ->
    Sorted Z.le (map sp_tick (it_sps tr)) ->
    Sorted Z.le (map n_tick (it_notes tr)) ->
    Forall (fun e => n_sp e = spec_sp (it_sps tr) (n_tick e)) (it_notes tr).

(** Consequences named in the property text. *)
Definition C05_zero_length_stmt : Prop :=
  forall p t, sp_sus p = 0 -> covers p t = false.
Definition C05_end_excluded_stmt : Prop :=
  forall p, covers p (sp_tick p + sp_sus p) = false.
Definition C05_none_iff_stmt : Prop :=
  forall sps t, spec_sp sps t = None <-> Forall (fun p => covers p t = false) sps.
Definition C05_some_first_stmt : Prop :=
  forall sps t j, spec_sp sps t = Some j ->
    exists p, nth_Z sps j = Some p /\ covers p t = true /\
              forall i q, 0 <= i < j -> nth_Z sps i = Some q -> covers q t = false.

(** Executable check used on the implementation's own output. *)
Definition spec_b (tr : itrack) : bool :=
  forallb (fun e => opt_Z_eqb (n_sp e) (spec_sp (it_sps tr) (n_tick e))) (it_notes tr).
