(** Spec/C18.v — Only documented errors escape; parsed charts always render. *)
From CP Require Import Base.Prelude Base.Str Base.Regex Base.Cfg Base.Float64 Base.Timedelta
  Model.Lines Model.Sync Model.Instrument Model.Chart Spec.RefRegex Spec.C10 Spec.ChartSpec Spec.ChartTimed.
From Flocq Require Import IEEE754.BinarySingleNaN.
Open Scope Z_scope.

(** The library's documented errors: ValueError, RegexNotMatchError, MissingRequiredField. *)
Definition doc_err (e : errkind) : bool :=
  match e with EValue | ERegexNotMatch | EMissingRequiredField => true | _ => false end.
Definition documented {A} (r : result A) : Prop :=
  match r with Ok _ => True | Err e => doc_err e = true end.

(** Numeric tokens within practical bounds: every maximal run of decimal digits (of any script) in the
    text has at most 8 digits. *)
Fixpoint max_digit_run (T : tables) (s : str) (cur best : nat) : nat :=
  match s with
  | [] => Nat.max cur best
  | ch :: s' => if is_digit T ch then max_digit_run T s' (S cur) best
                else max_digit_run T s' O (Nat.max cur best)
  end.
Definition bounded (T : tables) (text : str) : bool := Nat.leb (max_digit_run T text 0 0) 8.

(** All side conditions on the regenerated configuration together. *)
Definition cfg_ok_all (c : cfg) : bool :=
  cfg_ok_instr c && cfg_ok_sync c && cfg_ok_events c && cfg_ok_C10 c && cfg_ok_chart c
  && (eighth_triplet c =? 3).

(** Stage A (structure): for EVERY text, whatever its numerals, an escaping error is a documented one or
    one of the two numeric-range kinds (OverflowError of a float / timedelta conversion; the model
    declining on numerals beyond 2^53): IndexError, KeyError, TypeError, AttributeError,
    AssertionError, UnreachableError, ZeroDivisionError are unreachable. *)
Definition struct_err (e : errkind) : bool :=
  doc_err e || match e with EOverflow | EUnmodelled => true | _ => false end.
Definition C18_struct_stmt : Prop :=
  forall c text want, cfg_ok_all c = true ->
    match from_file c text want with Ok _ => True | Err e => struct_err e = true end.

(** Stage B (numeric range): with numeric tokens of at most 8 digits no conversion overflows and the
    model never declines, so only documented errors escape. *)
Definition C18_errors_stmt : Prop :=
  forall c text want, cfg_ok_all c = true -> bounded (tbl c) text = true ->
    documented (from_file c text want).

(** Every returned chart satisfies the preconditions of the formatters used by str()/repr(): every
    stored timestamp lies in the timedelta range, every tempo is a finite float. *)
Definition renderable (ch : chart) : Prop :=
  Forall (fun e => td_in_range (t_ts e) = true) (chart_points ch) /\
  Forall (fun e => td_in_range (n_end_ts e) = true) (chart_notes ch) /\
  Forall (fun b => td_in_range (b_ts b) = true /\ is_finite (b_bpm b) = true) (evs (st_bpm (c_sync ch))) /\
  Forall (fun a => td_in_range (a_ts a) = true) (st_anchor (c_sync ch)).
Definition C18_render_stmt : Prop :=
  forall c text want ch logs, from_file c text want = Ok (ch, logs) -> renderable ch.
