(** Spec/RefRegex.v — reference regular expressions, written by hand from the property texts,
    and the decidable side conditions under which the regenerated configuration coincides with
    them.  [Tie/*.v] proves the side conditions for the current source by [vm_compute]. *)
From CP Require Import Base.Prelude Base.Str Base.Regex Base.Cfg.
Open Scope Z_scope.
Open Scope string_scope.

Definition ws : re := Chr KWs.
Definition dg : re := Chr KDigit.
Definition Ls (s : String.string) : list re := lits (of_string s).
Definition head : list re := [Star ws; plus dg].
Definition any_but (c : N) : re := Chr (KSet true [(c, c)]).

Definition ref_note : re :=
  seq (head ++ Ls " = N " ++ [Chr (KSet false [(48%N, 55%N)])] ++ Ls " " ++ [plus dg; Star ws; eol]).
Definition ref_sp : re := seq (head ++ Ls " = S 2 " ++ [plus dg; Star ws; eol]).
Definition ref_tev : re := seq (head ++ Ls " = E " ++ [Star (any_but 32%N); Star ws; eol]).
Definition ref_bpm : re := seq (head ++ Ls " = B " ++ [plus dg; Star ws; eol]).
Definition ref_ts : re :=
  seq (head ++ Ls " = TS " ++ [plus dg; opt (seq (Ls " " ++ [plus dg])); Star ws; eol]).
Definition ref_anchor : re := seq (head ++ Ls " = A " ++ [plus dg; eol]).
Definition ref_text : re :=
  seq (head ++ Ls " = E """ ++ [Star (any_but 34%N)] ++ Ls """" ++ [Star ws; eol]).
Definition ref_section : re :=
  seq (head ++ Ls " = E ""section " ++ [Star (Chr KDot)] ++ Ls """" ++ [Star ws; eol]).
Definition ref_lyric : re :=
  seq (head ++ Ls " = E ""lyric " ++ [Star (Chr KDot)] ++ Ls """" ++ [Star ws; eol]).
Definition ref_header : re := seq (Ls "[" ++ [plus (Chr KDot)] ++ Ls "]" ++ [eol]).

Definition meta_value_re (k : meta_kind) : re :=
  match k with
  | MInt => dg
  | MStr => Chr KDot
  | MPlayer2 => any_but 34%N
  end.
Definition ref_meta (name : str) (k : meta_kind) : re :=
  seq ([Star ws] ++ lits name ++ Ls " = " ++
       [opt (lit1 34%N); plus (meta_value_re k); opt (lit1 34%N); Star ws; eol]).

Definition ref_of_kind (k : kind) : re :=
  match k with
  | KNote => ref_note | KSP => ref_sp | KTev => ref_tev
  | KBpm => ref_bpm | KTs => ref_ts | KAnchor => ref_anchor
  | KText => ref_text | KSection => ref_section | KLyric => ref_lyric
  end.

(** *** Facts about the character tables the shape theorems use. *)
Definition nat_range (a n : nat) : list N := map N.of_nat (List.seq a n).

Definition tables_ok (T : tables) : bool :=
  (* white space and decimal digits are disjoint, for every code point *)
  forallb (fun w => forallb (fun d => (snd w <? fst d)%N || (snd d <? fst w)%N) (digit_ranges T))
          (ws_ranges T)
  (* blank and LF are white space *)
  && is_ws T 32%N && is_ws T 10%N
  (* every other printable ASCII character except 0-9 is neither white space nor a digit *)
  && forallb (fun c => negb (is_ws T c) && negb (is_digit T c)) (nat_range 33 15 ++ nat_range 58 69)
  (* 0-9 are digits with their usual values *)
  && forallb (fun i => match digit_val T (48 + N.of_nat i)%N with
                       | Some v => v =? Z.of_nat i | None => false end) (List.seq 0 10)
  (* line boundaries: LF and CR are boundaries; no boundary is a printable ASCII character *)
  && is_break T 10%N && is_break T 13%N
  && forallb (fun c => negb (is_break T c)) (nat_range 32 95).

(** The nine recognisers of the current source are the reference ones. *)
Definition regex_items (c : cfg) : list (String.string * bool) :=
  [ ("re_note = ref_note", re_eqb (re_note c) ref_note);
    ("re_sp = ref_sp", re_eqb (re_sp c) ref_sp);
    ("re_tev = ref_tev", re_eqb (re_tev c) ref_tev);
    ("re_bpm = ref_bpm", re_eqb (re_bpm c) ref_bpm);
    ("re_ts = ref_ts", re_eqb (re_ts c) ref_ts);
    ("re_anchor = ref_anchor", re_eqb (re_anchor c) ref_anchor);
    ("re_text = ref_text", re_eqb (re_text c) ref_text);
    ("re_section = ref_section", re_eqb (re_section c) ref_section);
    ("re_lyric = ref_lyric", re_eqb (re_lyric c) ref_lyric);
    ("re_header = ref_header", re_eqb (re_header c) ref_header) ].

Definition items_ok (l : list (String.string * bool)) : bool := forallb snd l.
Definition failing (l : list (String.string * bool)) : list String.string :=
  map fst (filter (fun p => negb (snd p)) l).

Definition instr_items (c : cfg) : list (String.string * bool) :=
  [ ("tables_ok", tables_ok (tbl c));
    ("re_note = ref_note", re_eqb (re_note c) ref_note);
    ("re_sp = ref_sp", re_eqb (re_sp c) ref_sp);
    ("re_tev = ref_tev", re_eqb (re_tev c) ref_tev);
    ("sp_literal = 2", str_eqb (sp_literal c) [50%N]);
    ("NoteTrackIndex has the values 0..7",
      forallb (fun i => existsb (Z.eqb i) (nti_values c)) [0; 1; 2; 3; 4; 5; 6; 7]) ].

Definition sync_items (c : cfg) : list (String.string * bool) :=
  [ ("tables_ok", tables_ok (tbl c));
    ("re_bpm = ref_bpm", re_eqb (re_bpm c) ref_bpm);
    ("re_ts = ref_ts", re_eqb (re_ts c) ref_ts);
    ("re_anchor = ref_anchor", re_eqb (re_anchor c) ref_anchor);
    ("default lower numeral = 4", default_lower c =? 4) ].

Definition events_items (c : cfg) : list (String.string * bool) :=
  [ ("tables_ok", tables_ok (tbl c));
    ("re_text = ref_text", re_eqb (re_text c) ref_text);
    ("re_section = ref_section", re_eqb (re_section c) ref_section);
    ("re_lyric = ref_lyric", re_eqb (re_lyric c) ref_lyric);
    ("text is tried after lyric and section",
      list_eqb kind_eqb (order_events c) [KLyric; KSection; KText]
      || list_eqb kind_eqb (order_events c) [KSection; KLyric; KText]) ].

Definition cfg_ok_instr (c : cfg) : bool := items_ok (instr_items c).
Definition cfg_ok_sync (c : cfg) : bool := items_ok (sync_items c).
Definition cfg_ok_events (c : cfg) : bool := items_ok (events_items c).

(** Metadata: every field's regex is the reference regex of its PascalCase name and kind;
    names are distinct, non-empty, blank-free and start with a non-white-space, non-digit
    character. *)
Definition meta_field_ok (T : tables) (f : meta_field) : bool :=
  re_eqb (mf_re f) (ref_meta (mf_pascal f) (mf_kind f))
  && negb (Nat.eqb (length (mf_pascal f)) 0)
  && forallb (fun ch => negb (is_ws T ch) && negb (N.eqb ch 32%N)) (mf_pascal f).

Fixpoint nodup_str (l : list str) : bool :=
  match l with
  | [] => true
  | x :: xs => negb (existsb (str_eqb x) xs) && nodup_str xs
  end.

Definition meta_items (c : cfg) : list (String.string * bool) :=
  [ ("tables_ok", tables_ok (tbl c));
    ("every field regex is the reference regex of its name and kind",
      forallb (meta_field_ok (tbl c)) (meta_fields c));
    ("PascalCase names are distinct", nodup_str (map mf_pascal (meta_fields c)));
    ("attribute names are distinct", nodup_str (map mf_name (meta_fields c)));
    ("Player2 values are bass and rhythm",
      list_eqb str_eqb (player2_values c) [of_string "bass"; of_string "rhythm"]) ].
Definition cfg_ok_meta (c : cfg) : bool := items_ok (meta_items c).
