(** Spec/C08.v — Tempo, time-signature and anchor lines decode to exact values. *)
From CP Require Import Base.Prelude Base.Str Base.Regex Base.Cfg Base.Float64 Base.Timedelta
  Model.Lines Model.Sync Spec.RefRegex Spec.C07 Spec.FloatSpec.
Open Scope Z_scope.
Open Scope string_scope.

Section S.
Variable c : cfg.
Notation T := (tbl c).

Definition bpm_shape (s t n : str) : Prop :=
  exists p1 p2, all_ws_p c p1 /\ all_ws_p c p2 /\ digits_p c t /\ digits_p c n /\
    s = p1 ++ t ++ S_ " = B " ++ n ++ p2.
Definition ts_shape (s t u : str) (l : option str) : Prop :=
  exists p1 p2, all_ws_p c p1 /\ all_ws_p c p2 /\ digits_p c t /\ digits_p c u /\
    match l with
    | None => s = p1 ++ t ++ S_ " = TS " ++ u ++ p2
    | Some l => digits_p c l /\ s = p1 ++ t ++ S_ " = TS " ++ u ++ S_ " " ++ l ++ p2
    end.
(** Anchor lines take no trailing pad except one final newline (Python's [$]). *)
Definition anchor_shape (s t u : str) : Prop :=
  exists p1 p2, all_ws_p c p1 /\ (p2 = [] \/ p2 = [LF]) /\ digits_p c t /\ digits_p c u /\
    s = p1 ++ t ++ S_ " = A " ++ u ++ p2.

Definition C08_bpm_accept_stmt : Prop :=
  cfg_ok_sync c = true -> forall s t n, bpm_shape s t n -> short t ->
    dec c KBpm s = Ok (PBpm (horner T t 0) n).
Definition C08_ts_accept_stmt : Prop :=
  cfg_ok_sync c = true -> forall s t u l, ts_shape s t u l -> short t -> short u ->
    match l with Some l => short l | None => True end ->
    dec c KTs s = Ok (PTs (horner T t 0) (horner T u 0)
                          (match l with Some l => Some (horner T l 0) | None => None end)).
Definition C08_anchor_accept_stmt : Prop :=
  cfg_ok_sync c = true -> forall s t u, anchor_shape s t u -> short t -> short u ->
    dec c KAnchor s = Ok (PAnchor (horner T t 0) (horner T u 0)).

Definition C08_bpm_only_stmt : Prop :=
  cfg_ok_sync c = true -> forall s, matchb T (re_bpm c) s = true <-> exists t n, bpm_shape s t n.
Definition C08_ts_only_stmt : Prop :=
  cfg_ok_sync c = true -> forall s, matchb T (re_ts c) s = true <-> exists t u l, ts_shape s t u l.
Definition C08_anchor_only_stmt : Prop :=
  cfg_ok_sync c = true -> forall s, matchb T (re_anchor c) s = true <-> exists t u, anchor_shape s t u.

Definition C08_disjoint_stmt : Prop :=
  cfg_ok_sync c = true -> forall s,
    ~ (matchb T (re_bpm c) s = true /\ matchb T (re_ts c) s = true) /\
    ~ (matchb T (re_bpm c) s = true /\ matchb T (re_anchor c) s = true) /\
    ~ (matchb T (re_ts c) s = true /\ matchb T (re_anchor c) s = true).

(** Values. *)
(** u / 4 without an exponent, u / 2^l with one. *)
Definition C08_ts_value_stmt : Prop :=
  default_lower c = 4 -> forall t u l,
    ts_payload c (PTs t u l) = (u, match l with Some l => 2 ^ l | None => 4 end).

(** An anchor holds exactly the written number of microseconds (anything a timedelta can hold). *)
Definition C08_anchor_value_stmt : Prop :=
  forall t us, 0 <= us < 86400000000 * 1000000000 ->
    anchor_from (PAnchor t us) = Ok {| a_tick := t; a_ts := us |}.

(** Every positive numeral below 2^52 is accepted and yields the double nearest to n/1000
    (the float content is C08_bpm_float in Spec/FloatSpec.v). *)
Definition C08_bpm_value_stmt : Prop :=
  C08_bpm_float_stmt ->
  forall raw n tick prev R e, py_int T raw = Ok n -> 1 <= n < 2 ^ 52 ->
    bpm_from_data T tick raw prev R = Ok e -> b_bpm e = bpm_of_n n /\ b_tick e = tick.

(** … and decoding itself never rejects such a numeral: the only possible failures of
    [bpm_from_data] are those of ordering and of the previous segment's duration. *)
Definition C08_bpm_first_stmt : Prop :=
  C08_bpm_float_stmt ->
  forall raw n tick R, py_int T raw = Ok n -> 1 <= n < 2 ^ 52 ->
    bpm_from_data T tick raw None R
    = Ok {| b_tick := tick; b_ts := 0; b_bpm := bpm_of_n n; b_idx := 0 |}.

End S.
